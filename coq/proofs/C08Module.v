(* C08, module level to call site: the root-context model composed with the call-target ladder; and the
   well-formedness invariant of the root table. *)
From RattrV Require Import Base Str ModNames Context RootCtx RootCheck RootSpec RootProofs C08Proofs.
From Coq Require Import Lia.
Open Scope string_scope.
Open Scope list_scope.

(* A bare call n(...) inside a function whose own scope does not hold n gets the symbol of the FIRST module-level
   statement that offers n (a def, a class, a lambda assignment, an import ...), provided n is no builtin / dunder name *)
Theorem module_level_definition_is_the_call_target :
  forall locatable blacklisted base is_init mexists stmts init root params n s,
    forallb plain_stmt stmts = true ->
    regs locatable blacklisted base is_init stmts init = ROk root ->
    scope_get init n = None ->
    first_of (flat_map (binds base is_init) stmts) n = Some s ->
    plain n -> scope_get params n = None ->
    get_call_target mexists [params; root] n = Some s.
Proof.
  intros lo bl base is_init mexists stmts init root params n s Hp Hr Hi Hf Hn Hpar.
  rewrite (bare_call_follows_scope_chain mexists _ _ Hn). cbn [ctx_get]. rewrite Hpar.
  pose proof (regs_extends lo bl base is_init _ _ _ Hp Hr n) as He. rewrite Hi, Hf in He. rewrite He. reflexivity.
Qed.

(* ... and a parameter n of the function wins over it (registered with is_argument) *)
Theorem parameter_wins_over_module_level_definition :
  forall mexists root n,
    plain n ->
    get_call_target mexists (ctx_add (ctx_push [root]) (mkSym n KName) true) n = Some (mkSym n KName).
Proof.
  intros mexists root n (H1 & H2 & H3 & H4 & H5). exact (argument_add_shadows mexists [root] n H1 H2 H3 H4 H5).
Qed.

(* ---------- the root table is a dictionary: never two symbols of one name ---------- *)
Definition names (sc : scope) : list string := map s_name sc.

Lemma scope_get_none_notin sc n : scope_get sc n = None -> ~ In n (names sc).
Proof.
  induction sc as [|x r IH]; cbn [scope_get names map]; intros H Hin; [exact Hin|].
  destruct (String.eqb (s_name x) n) eqn:He; [discriminate|].
  destruct Hin as [Hx|Hin]; [apply String.eqb_neq in He; contradiction | exact (IH H Hin)].
Qed.

Lemma NoDup_snoc {A} (l : list A) x : NoDup l -> ~ In x l -> NoDup (l ++ [x]).
Proof.
  induction l as [|y r IH]; cbn [app]; intros Hn Hx; [repeat constructor; intros []|].
  inversion Hn as [|? ? Hy Hr]; subst. constructor.
  - intro Hin. apply in_app_or in Hin as [Hin|[->|[]]]; [exact (Hy Hin) | apply Hx; left; reflexivity].
  - apply IH; [exact Hr | intro Hin; apply Hx; right; exact Hin].
Qed.

Lemma root_add_nodup sc s : NoDup (names sc) -> NoDup (names (root_add sc s)).
Proof.
  intro H. unfold root_add. destruct (scope_get sc (s_name s)) eqn:Hg; [exact H|].
  unfold names. rewrite map_app. cbn [map]. apply NoDup_snoc; [exact H | exact (scope_get_none_notin _ _ Hg)].
Qed.

Lemma scope_set_names sc s : (In (s_name s) (names sc) /\ names (scope_set sc s) = names sc)
                             \/ (~ In (s_name s) (names sc) /\ names (scope_set sc s) = names sc ++ [s_name s]).
Proof.
  induction sc as [|x r IH]; cbn [scope_set names map].
  - right. split; [intros [] | reflexivity].
  - destruct (String.eqb (s_name x) (s_name s)) eqn:He.
    + apply String.eqb_eq in He. left. split; [left; exact He | cbn [map]; rewrite He; reflexivity].
    + apply String.eqb_neq in He. cbn [map]. destruct IH as [[Hin Heq]|[Hnin Heq]].
      * left. split; [right; exact Hin | unfold names in Heq; rewrite Heq; reflexivity].
      * right. split; [intros [Hx|Hin]; [exact (He Hx) | exact (Hnin Hin)] | unfold names in Heq; rewrite Heq; reflexivity].
Qed.

Lemma scope_set_nodup sc s : NoDup (names sc) -> NoDup (names (scope_set sc s)).
Proof.
  intro H. destruct (scope_set_names sc s) as [[_ ->]|[Hn ->]]; [exact H | apply NoDup_snoc; assumption].
Qed.

Lemma scope_remove_incl sc n : forall x, In x (names (scope_remove sc n)) -> In x (names sc).
Proof.
  induction sc as [|y r IH]; cbn [scope_remove names map]; intros x Hin; [exact Hin|].
  destruct (String.eqb (s_name y) n); [right; exact Hin|].
  cbn [map] in Hin. destruct Hin as [->|Hin]; [left; reflexivity | right; exact (IH x Hin)].
Qed.

Lemma scope_remove_nodup sc n : NoDup (names sc) -> NoDup (names (scope_remove sc n)).
Proof.
  induction sc as [|y r IH]; cbn [scope_remove names map]; intro H; [exact H|].
  inversion H as [|? ? Hy Hr]; subst.
  destruct (String.eqb (s_name y) n); [exact Hr|].
  cbn [map]. constructor; [intro Hin; exact (Hy (scope_remove_incl r n _ Hin)) | exact (IH Hr)].
Qed.

(* after `del n` the name is gone - the next statement offering n decides it again *)
Lemma scope_remove_get sc n : NoDup (names sc) -> scope_get (scope_remove sc n) n = None.
Proof.
  induction sc as [|y r IH]; cbn [scope_remove scope_get names map]; intro H; [reflexivity|].
  inversion H as [|? ? Hy Hr]; subst.
  destruct (String.eqb (s_name y) n) eqn:He.
  - apply String.eqb_eq in He. subst n.
    destruct (scope_get r (s_name y)) eqn:Hg; [|reflexivity].
    exfalso. apply Hy. clear -Hg. induction r as [|z r IH]; cbn [scope_get] in Hg; [discriminate|].
    destruct (String.eqb (s_name z) (s_name y)) eqn:Hz; [apply String.eqb_eq in Hz; left; exact Hz | right; exact (IH Hg)].
  - cbn [scope_get]. rewrite He. exact (IH Hr).
Qed.

Section Inv.
  Variable locatable blacklisted : string -> bool.
  Variable base : string.
  Variable is_init : bool.
  Notation reg := (reg locatable blacklisted base is_init).
  Notation regs := (regs locatable blacklisted base is_init).

  Lemma add_aliases_nodup mo : forall names0 sc sc',
    NoDup (names sc) -> add_aliases locatable blacklisted sc mo names0 = ROk sc' -> NoDup (names sc').
  Proof.
    induction names0 as [|a rest IH]; intros sc sc' Hn H; cbn [add_aliases] in H.
    - injection H as <-. exact Hn.
    - destruct a as [n asn]. destruct mo as [m|].
      + destruct (String.eqb n "*"); unfold add_import in H.
        * destruct (negb (blacklisted m) && negb (locatable m)); [discriminate|].
          apply (IH _ _ (scope_set_nodup _ _ Hn) H).
        * destruct (negb (blacklisted m) && negb (locatable (m ++ "." ++ n))); [discriminate|].
          apply (IH _ _ (root_add_nodup _ _ Hn) H).
      + unfold add_import in H. destruct (negb (blacklisted n) && negb (locatable n)); [discriminate|].
        apply (IH _ _ (root_add_nodup _ _ Hn) H).
  Qed.

  Lemma fold_root_add_nodup l : forall sc, NoDup (names sc) ->
    NoDup (names (fold_left (fun s n => root_add s (mkSym n KName)) l sc)).
  Proof. induction l as [|n r IH]; intros sc H; cbn [fold_left]; [exact H | apply IH, root_add_nodup, H]. Qed.

  Lemma fold_remove_nodup l : forall sc, NoDup (names sc) -> NoDup (names (fold_left scope_remove l sc)).
  Proof. induction l as [|n r IH]; intros sc H; cbn [fold_left]; [exact H | apply IH, scope_remove_nodup, H]. Qed.

  Theorem reg_nodup st : forall sc sc', NoDup (names sc) -> reg st sc = ROk sc' -> NoDup (names sc').
  Proof.
    induction st as [a | m n l | k pb | n pu | n | n | body IH | ] using tstmt_ind'; intros sc sc' Hn H; cbn [RootCtx.reg] in H.
    - exact (add_aliases_nodup None _ _ _ Hn H).
    - destruct l as [|l'].
      + destruct m as [mn|]; [exact (add_aliases_nodup _ _ _ _ Hn H) | discriminate].
      + destruct (String.eqb (derive_absolute base m (S l') is_init) "" && existsb is_star n).
        * injection H as <-. exact Hn.
        * exact (add_aliases_nodup _ _ _ _ Hn H).
    - injection H as <-. destruct k as [[|] t | [|] t [|] | names0]; cbn [reg_assign]; try exact Hn; try (apply root_add_nodup; exact Hn).
      apply fold_root_add_nodup; exact Hn.
    - injection H as <-. apply fold_remove_nodup; exact Hn.
    - injection H as <-. apply root_add_nodup; exact Hn.
    - injection H as <-. apply root_add_nodup; exact Hn.
    - revert sc sc' Hn H. induction body as [|s r IHr]; intros sc sc' Hn H.
      + injection H as <-. exact Hn.
      + destruct (reg s sc) as [sc1|] eqn:H1; [|discriminate].
        exact (IHr (Forall_inv_tail IH) _ _ (Forall_inv IH _ _ Hn H1) H).
    - injection H as <-. exact Hn.
  Qed.

  (* INVARIANT: whatever the module says, the root table never holds two symbols of one name (it is a dict keyed by
     Symbol.id); the list model is faithful to it *)
  Theorem root_table_has_unique_names : forall stmts sc sc',
    NoDup (names sc) -> regs stmts sc = ROk sc' -> NoDup (names sc').
  Proof.
    induction stmts as [|s r IH]; intros sc sc' Hn H; cbn [RootCtx.regs] in H.
    - injection H as <-. exact Hn.
    - destruct (reg s sc) as [sc1|] eqn:H1; [|discriminate]. exact (IH _ _ (reg_nodup _ _ _ Hn H1) H).
  Qed.

  (* `del n` followed by a definition of n: the definition is registered, whatever n was before *)
  Theorem delete_then_define_registers_the_definition : forall sc sc' n u,
    NoDup (names sc) ->
    regs [TDelete u [n]; TDef n] sc = ROk sc' -> scope_get sc' n = Some (mkSym n KFunc).
  Proof.
    intros sc sc' n u Hn H. cbn [RootCtx.regs RootCtx.reg fold_left] in H. injection H as <-.
    rewrite root_add_get, (scope_remove_get _ _ Hn). cbn [s_name]. rewrite String.eqb_refl. reflexivity.
  Qed.
End Inv.
