(* The generated diagnostic functions, characterised: one closed form for `emit`, proved equal to
   the GENERATED code (gen/DiagGen.v) for every level, place, option setting and weight >= 0.
   These lemmas are re-checked against what the source says on every run; everything in
   C15Proofs / C16Proofs rests on them and on nothing else about the generated text. *)
From RattrV Require Import DiagRun ExitSpec.
From Coq Require Import Lia.
Open Scope Z_scope.

Definition bump (p : place) (n : Z) (w : world) : world :=
  match p with
  | InTarget => mkWorld (w_target w + n) (w_imports w) (w_simpl w) p (w_log w)
  | InImport => mkWorld (w_target w) (w_imports w + n) (w_simpl w) p (w_log w)
  | NoFile => mkWorld (w_target w) (w_imports w) (w_simpl w + n) p (w_log w)
  end.

Definition add_log (l : list level) (w : world) : world :=
  mkWorld (w_target w) (w_imports w) (w_simpl w) (w_place w) (w_log w ++ l).

Definition escalates (a : args) (e : ev) : bool :=
  match e_level e with
  | DFatal => true
  | DError => (e_weight e >? 0) && a_is_strict a
  | _ => false
  end.

Definition level_of (d : dlevel) : level :=
  match d with DInfo => LInfo | DWarning => LWarning | DError => LError | DFatal => LFatal end.

Definition emit_abs (a : args) (e : ev) (w : world) : res unit * world :=
  let w1 := bump (e_place e) (e_weight e) w in
  if escalates a e then (Exit1, add_log [LFatal] w1)
  else (Ret tt, add_log (if visible (a_warning_level a) e then [level_of (e_level e)] else []) w1).

Lemma world_eta w : mkWorld (w_target w) (w_imports w) (w_simpl w) (w_place w) (w_log w) = w.
Proof. destruct w; reflexivity. Qed.

Lemma emit_is_abs a e w : 0 <= e_weight e -> emit a e w = emit_abs a e w.
Proof.
  intros Hw. destruct e as [lv n p]. simpl in Hw.
  destruct a as [strict thr wl]. destruct w as [bt bi bs pl lg].
  unfold emit, emit_abs, escalates, visible, bump, add_log. simpl.
  assert (Hn : (n <? 0) = false) by (apply Z.ltb_ge; lia).
  destruct lv, p, wl, strict;
    unfold error_info, error_warning, error_error, error_fatal, config_increment_badness,
           config_do_not_show_warnings, config_is_in_target_file, state_is_in_any_file,
           show_warnings, bind, ret, log, sys_exit, add_target, add_imports, add_simpl,
           current_file_is_not_none, target_eq_current_file, set_place, default_badness_fatal;
    simpl; rewrite ?Hn; simpl; rewrite ?Z.add_0_r, ?app_nil_r;
    try reflexivity;
    destruct (n >? 0); simpl; rewrite ?Hn; simpl; rewrite ?Z.add_0_r, ?app_nil_r, <- ?app_assoc; reflexivity.
Qed.

(* the threshold check of main(), closed form *)
Definition within (a : args) (w : world) : bool :=
  if a_is_strict a then (w_target w + w_simpl w <=? 0)
  else if a_threshold a =? 0 then true else (w_target w + w_simpl w <=? a_threshold a).

Lemma threshold_check_abs a w :
  main_threshold_check a w =
  if within a w then (Ret tt, w)
  else (Exit1, add_log [LFatal] (bump (w_place w) 0 w)).
Proof.
  destruct a as [strict thr wl]. destruct w as [bt bi bs pl lg].
  unfold main_threshold_check, within, config_is_within_badness_threshold, state_badness,
         error_fatal, config_increment_badness, default_badness_fatal, bind, ret, log, sys_exit,
         state_is_in_any_file, config_is_in_target_file, current_file_is_not_none,
         target_eq_current_file, add_target, add_imports, add_simpl, bump, add_log. simpl.
  destruct strict; simpl.
  - destruct (bt + bs <=? 0); simpl; [reflexivity|]. destruct pl; simpl; rewrite ?Z.add_0_r; reflexivity.
  - destruct (thr =? 0); simpl; [reflexivity|].
    destruct (bt + bs <=? thr); simpl; [reflexivity|]. destruct pl; simpl; rewrite ?Z.add_0_r; reflexivity.
Qed.

(* facts read off the generated text that the property statements mention explicitly *)
Lemma documented_default_weights :
  default_badness_info = 0 /\ default_badness_warning = 1 /\ default_badness_error = 5 /\ default_badness_fatal = 0.
Proof. repeat split; reflexivity. Qed.

Lemma main_phase_order :
  main_phases = [PCacheLookup; PAnalyse; PSimplify; PThresholdCheck; POutput; PWriteCache; PReturnSuccess].
Proof. reflexivity. Qed.

Lemma show_warnings_chain :
  forall f, (flag_in f (show_warnings (mkArgs false 0 WNone)) = true -> flag_in f (show_warnings (mkArgs false 0 WLocal)) = true)
         /\ (flag_in f (show_warnings (mkArgs false 0 WLocal)) = true -> flag_in f (show_warnings (mkArgs false 0 WDefault)) = true)
         /\ (flag_in f (show_warnings (mkArgs false 0 WDefault)) = true -> flag_in f (show_warnings (mkArgs false 0 WAll)) = true).
Proof. intros f. destruct f; vm_compute; repeat split; auto. Qed.
