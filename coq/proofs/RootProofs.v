(* The root context: the first module-level binding of a name wins, and - for modules that bind every name once and
   delete nothing - the context does not depend on the order of the top-level statements. *)
From RattrV Require Import Base Str ModNames Context RootCtx RootCheck RootSpec.
From Coq Require Import Permutation Lia.
Open Scope string_scope.
Open Scope list_scope.

(* ---------- induction over statements with nested blocks ---------- *)
Section TstmtInd.
  Variable P : tstmt -> Prop.
  Hypothesis Himport : forall a, P (TImport a).
  Hypothesis Hfrom : forall m n l, P (TImportFrom m n l).
  Hypothesis Hassign : forall k b, P (TAssign k b).
  Hypothesis Hdelete : forall n u, P (TDelete n u).
  Hypothesis Hdef : forall n, P (TDef n).
  Hypothesis Hclass : forall n, P (TClass n).
  Hypothesis Hblock : forall body, Forall P body -> P (TBlock body).
  Hypothesis Hignored : P TIgnored.
  Fixpoint tstmt_ind' (s : tstmt) : P s :=
    match s with
    | TImport a => Himport a
    | TImportFrom m n l => Hfrom m n l
    | TAssign k b => Hassign k b
    | TDelete n u => Hdelete n u
    | TDef n => Hdef n
    | TClass n => Hclass n
    | TBlock body =>
      Hblock body ((fix go (l : list tstmt) : Forall P l :=
                      match l with [] => Forall_nil P | x :: r => Forall_cons x (tstmt_ind' x) (go r) end) body)
    | TIgnored => Hignored
    end.
End TstmtInd.

(* ---------- lookups after root_add ---------- *)
Lemma scope_get_app sc sc' n :
  scope_get (sc ++ sc') n = match scope_get sc n with Some x => Some x | None => scope_get sc' n end.
Proof. induction sc as [|x r IH]; cbn [app scope_get]; [reflexivity|]. destruct (String.eqb (s_name x) n); [reflexivity | exact IH]. Qed.

Lemma root_add_get sc s n :
  scope_get (root_add sc s) n =
  match scope_get sc n with Some x => Some x | None => if String.eqb (s_name s) n then Some s else None end.
Proof.
  unfold root_add. destruct (scope_get sc (s_name s)) as [y|] eqn:Hs.
  - destruct (scope_get sc n) as [x|] eqn:Hn; [reflexivity|].
    destruct (String.eqb (s_name s) n) eqn:He; [|reflexivity].
    apply String.eqb_eq in He. subst n. rewrite Hs in Hn. discriminate.
  - rewrite scope_get_app. cbn [scope_get]. destruct (scope_get sc n); reflexivity.
Qed.

(* the lookup function of a scope extended by "first wins" additions of a list of symbols *)
Definition first_of (l : list sym) (n : string) : option sym := find (fun s => String.eqb (s_name s) n) l.

Definition extends_by (sc sc' : scope) (added : list sym) : Prop :=
  forall n, scope_get sc' n = match scope_get sc n with Some x => Some x | None => first_of added n end.

Lemma extends_refl sc : extends_by sc sc [].
Proof. intro n. cbn. destruct (scope_get sc n); reflexivity. Qed.

Lemma first_of_app l1 l2 n : first_of (l1 ++ l2) n = match first_of l1 n with Some x => Some x | None => first_of l2 n end.
Proof. unfold first_of. induction l1 as [|x r IH]; cbn [app find]; [reflexivity|]. destruct (String.eqb (s_name x) n); [reflexivity | exact IH]. Qed.

Lemma extends_trans sc1 sc2 sc3 a b : extends_by sc1 sc2 a -> extends_by sc2 sc3 b -> extends_by sc1 sc3 (a ++ b).
Proof.
  intros H1 H2 n. rewrite H2, H1, first_of_app. destruct (scope_get sc1 n); [reflexivity|]. destruct (first_of a n); reflexivity.
Qed.

Lemma extends_root_add sc s : extends_by sc (root_add sc s) [s].
Proof. intro n. rewrite root_add_get. cbn. destruct (scope_get sc n); [reflexivity|]. destruct (String.eqb (s_name s) n); reflexivity. Qed.

(* ---------- the delete-free, star-free fragment ---------- *)
Section Frag.
  Variable locatable blacklisted : string -> bool.
  Variable base : string.
  Variable is_init : bool.
  Notation binds := (binds base is_init).
  Notation from_module := (from_module base is_init).

  (* no deletion, no starred import, anywhere: spec/RootSpec.v plain_stmt *)
  Notation plain := plain_stmt.

  Notation reg := (reg locatable blacklisted base is_init).
  Notation regs := (regs locatable blacklisted base is_init).
  Notation add_aliases := (add_aliases locatable blacklisted).

  Lemma add_aliases_extends mo : forall names sc sc',
    existsb is_star names = false ->
    add_aliases sc mo names = ROk sc' -> extends_by sc sc' (map (alias_sym mo) names).
  Proof.
    induction names as [|a rest IH]; intros sc sc' Hst H; cbn [add_aliases] in H.
    - injection H as <-. apply extends_refl.
    - cbn [existsb] in Hst. apply Bool.orb_false_iff in Hst as [Ha Hrest].
      destruct a as [n asn]. unfold is_star in Ha.
      destruct mo as [m|].
      + rewrite Ha in H. unfold add_import in H.
        destruct (negb (blacklisted m) && negb (locatable (m ++ "." ++ n))); [discriminate|].
        cbn [map]. change (?x :: ?l) with ([x] ++ l).
        eapply extends_trans; [apply extends_root_add | exact (IH _ _ Hrest H)].
      + unfold add_import in H.
        destruct (negb (blacklisted n) && negb (locatable n)); [discriminate|].
        cbn [map]. change (?x :: ?l) with ([x] ++ l).
        eapply extends_trans; [apply extends_root_add | exact (IH _ _ Hrest H)].
  Qed.

  Lemma fold_root_add_extends names : forall sc,
    extends_by sc (fold_left (fun s n => root_add s (mkSym n KName)) names sc) (map (fun n => mkSym n KName) names).
  Proof.
    induction names as [|n r IH]; intro sc; cbn [fold_left map]; [apply extends_refl|].
    change (?x :: ?l) with ([x] ++ l). eapply extends_trans; [apply extends_root_add | apply IH].
  Qed.

  Lemma reg_assign_extends sc k : extends_by sc (reg_assign sc k) (assign_syms k).
  Proof.
    destruct k as [[|] t | [|] t [|] | names]; cbn [reg_assign assign_syms];
      try apply extends_refl; try apply extends_root_add. apply fold_root_add_extends.
  Qed.

  (* FIRST BINDING WINS: after the statements, a name means what it meant before, else what the FIRST statement
     (in the order register_stmts walks them, blocks flattened) that binds it says *)
  Theorem reg_extends st : forall sc sc', plain st = true -> reg st sc = ROk sc' -> extends_by sc sc' (binds st).
  Proof.
    induction st as [a | m n l | k pb | n pu | n | n | body IH | ] using tstmt_ind'; intros sc sc' Hp H; cbn [reg binds] in *.
    - cbn [plain_stmt] in Hp. apply Bool.negb_true_iff in Hp. exact (add_aliases_extends None _ _ _ Hp H).
    - cbn [plain_stmt] in Hp. apply Bool.negb_true_iff in Hp. destruct l as [|l'].
      + destruct m as [mn|]; [|discriminate]. exact (add_aliases_extends (Some mn) _ _ _ Hp H).
      + rewrite Hp, Bool.andb_false_r in H. exact (add_aliases_extends (Some _) _ _ _ Hp H).
    - injection H as <-. apply reg_assign_extends.
    - discriminate Hp.
    - injection H as <-. apply extends_root_add.
    - injection H as <-. apply extends_root_add.
    - cbn [plain_stmt] in Hp. revert sc sc' Hp H. induction body as [|s r IHr]; intros sc sc' Hp H.
      + injection H as <-. apply extends_refl.
      + cbn [forallb] in Hp. apply Bool.andb_true_iff in Hp as [Hs Hr].
        destruct (reg s sc) as [sc1|] eqn:H1; [|discriminate].
        cbn [flat_map]. eapply extends_trans.
        * exact (Forall_inv IH _ _ Hs H1).
        * exact (IHr (Forall_inv_tail IH) _ _ Hr H).
    - injection H as <-. apply extends_refl.
  Qed.

  Theorem regs_extends : forall stmts sc sc', forallb plain stmts = true -> regs stmts sc = ROk sc' ->
    extends_by sc sc' (flat_map binds stmts).
  Proof.
    induction stmts as [|s r IH]; intros sc sc' Hp H; cbn [regs] in H.
    - injection H as <-. apply extends_refl.
    - cbn [forallb] in Hp. apply Bool.andb_true_iff in Hp as [Hs Hr].
      destruct (reg s sc) as [sc1|] eqn:H1; [|discriminate].
      cbn [flat_map]. eapply extends_trans; [exact (reg_extends _ _ _ Hs H1) | exact (IH _ _ Hr H)].
  Qed.

  (* ---------- whether registration ends in the fatal diagnostic does not depend on the context ---------- *)
  Definition alias_ok (mo : option string) (a : alias) : bool :=
    match mo, a with
    | None, mkAlias n _ => negb (negb (blacklisted n) && negb (locatable n))
    | Some m, mkAlias n _ =>
      if String.eqb n "*" then negb (negb (blacklisted m) && negb (locatable m))
      else negb (negb (blacklisted m) && negb (locatable (m ++ "." ++ n)))
    end.

  Fixpoint fatal_free (st : tstmt) : bool :=
    match st with
    | TImport aliases => forallb (alias_ok None) aliases
    | TImportFrom m names level =>
      match level, m with
      | 0, None => false
      | 0, _ => forallb (alias_ok (from_module m level)) names
      | S _, _ =>
        (String.eqb (derive_absolute base m level is_init) "" && existsb is_star names)
        || forallb (alias_ok (from_module m level)) names
      end
    | TBlock body => forallb fatal_free body
    | _ => true
    end.

  Lemma add_aliases_ok mo : forall names sc,
    (exists sc', add_aliases sc mo names = ROk sc') <-> forallb (alias_ok mo) names = true.
  Proof.
    induction names as [|a rest IH]; intro sc; cbn [add_aliases forallb].
    - split; [reflexivity | intros _; eexists; reflexivity].
    - destruct a as [n asn]. destruct mo as [m|].
      + cbn [alias_ok]. destruct (String.eqb n "*") eqn:Hn; unfold add_import.
        * destruct (negb (blacklisted m) && negb (locatable m)); cbn [negb andb].
          -- split; [intros [? H]; discriminate | discriminate].
          -- apply IH.
        * destruct (negb (blacklisted m) && negb (locatable (m ++ "." ++ n))); cbn [negb andb].
          -- split; [intros [? H]; discriminate | discriminate].
          -- apply IH.
      + cbn [alias_ok]. unfold add_import.
        destruct (negb (blacklisted n) && negb (locatable n)); cbn [negb andb].
        * split; [intros [? H]; discriminate | discriminate].
        * apply IH.
  Qed.

  Lemma reg_ok st : forall sc, (exists sc', reg st sc = ROk sc') <-> fatal_free st = true.
  Proof.
    induction st as [a | m n l | k pb | n pu | n | n | body IH | ] using tstmt_ind'; intro sc; cbn [reg fatal_free];
      try (split; [reflexivity | intros _; eexists; reflexivity]).
    - apply add_aliases_ok.
    - destruct l as [|l'].
      + destruct m as [mn|]; [apply (add_aliases_ok (Some mn)) | split; [intros [? H]; discriminate | discriminate]].
      + cbn [from_module]. destruct (String.eqb (derive_absolute base m (S l') is_init) "" && existsb is_star n); cbn [orb].
        * split; [reflexivity | intros _; eexists; reflexivity].
        * apply (add_aliases_ok (Some _)).
    - revert sc. induction body as [|s r IHr]; intro sc; cbn [forallb].
      + split; [reflexivity | intros _; eexists; reflexivity].
      + split.
        * intros [sc' H]. destruct (reg s sc) as [sc1|] eqn:H1; [|discriminate].
          apply Bool.andb_true_iff. split.
          -- apply (proj1 (Forall_inv IH sc)). eexists; exact H1.
          -- apply (proj1 (IHr (Forall_inv_tail IH) sc1)). eexists; exact H.
        * intro H. apply Bool.andb_true_iff in H as [Hs Hr].
          destruct (proj2 (Forall_inv IH sc) Hs) as [sc1 H1]. rewrite H1.
          exact (proj2 (IHr (Forall_inv_tail IH) sc1) Hr).
  Qed.

  Lemma regs_ok : forall stmts sc, (exists sc', regs stmts sc = ROk sc') <-> forallb fatal_free stmts = true.
  Proof.
    induction stmts as [|s r IH]; intro sc; cbn [regs forallb].
    - split; [reflexivity | intros _; eexists; reflexivity].
    - split.
      + intros [sc' H]. destruct (reg s sc) as [sc1|] eqn:H1; [|discriminate].
        apply Bool.andb_true_iff. split; [apply (proj1 (reg_ok s sc)); eexists; exact H1 | apply (proj1 (IH sc1)); eexists; exact H].
      + intro H. apply Bool.andb_true_iff in H as [Hs Hr].
        destruct (proj2 (reg_ok s sc) Hs) as [sc1 H1]. rewrite H1. exact (proj2 (IH sc1) Hr).
  Qed.

  (* ---------- order independence ---------- *)
  Lemma first_of_perm l l' n : NoDup (map s_name l) -> Permutation l l' -> first_of l n = first_of l' n.
  Proof.
    intros Hnd Hp. induction Hp as [| x l l' Hp IH | x y l | l l' l'' H1 IH1 H2 IH2].
    - reflexivity.
    - unfold first_of in *. cbn [find]. destruct (String.eqb (s_name x) n); [reflexivity|].
      apply IH. cbn [map] in Hnd. inversion Hnd; assumption.
    - unfold first_of. cbn [find]. destruct (String.eqb (s_name y) n) eqn:Hy; destruct (String.eqb (s_name x) n) eqn:Hx; try reflexivity.
      apply String.eqb_eq in Hy, Hx. cbn [map] in Hnd. inversion Hnd as [|? ? Hnotin _]. subst.
      exfalso. apply Hnotin. left. congruence.
    - rewrite IH1 by exact Hnd. apply IH2.
      eapply Permutation_NoDup; [apply Permutation_map; exact H1 | exact Hnd].
  Qed.

  Lemma flat_map_perm {A B} (f : A -> list B) l l' : Permutation l l' -> Permutation (flat_map f l) (flat_map f l').
  Proof.
    induction 1 as [| x l l' Hp IH | x y l | l l' l'' H1 IH1 H2 IH2]; cbn [flat_map].
    - constructor.
    - apply Permutation_app_head; exact IH.
    - rewrite !app_assoc. apply Permutation_app_tail. apply Permutation_app_comm.
    - eapply Permutation_trans; eassumption.
  Qed.

  Lemma forallb_perm {A} (p : A -> bool) l l' : Permutation l l' -> forallb p l = forallb p l'.
  Proof.
    induction 1 as [| x l l' Hp IH | x y l | l l' l'' H1 IH1 H2 IH2]; cbn [forallb]; try congruence.
    destruct (p x), (p y); reflexivity.
  Qed.

  (* a module that binds every name once and deletes nothing: ANY reordering of its top-level statements gives a root
     context in which every name means the same (forward references, reordering of definitions) *)
  Theorem root_context_independent_of_statement_order :
    forall stmts stmts' sc sc1,
      Permutation stmts stmts' ->
      forallb plain stmts = true ->
      NoDup (map s_name (flat_map binds stmts)) ->
      regs stmts sc = ROk sc1 ->
      exists sc2, regs stmts' sc = ROk sc2 /\ forall n, scope_get sc2 n = scope_get sc1 n.
  Proof.
    intros stmts stmts' sc sc1 Hperm Hplain Hnd H1.
    assert (Hff : forallb fatal_free stmts' = true).
    { rewrite <- (forallb_perm _ _ _ Hperm). apply (proj1 (regs_ok stmts sc)). eexists; exact H1. }
    destruct (proj2 (regs_ok stmts' sc) Hff) as [sc2 H2]. exists sc2. split; [exact H2|].
    intro n. rewrite (regs_extends _ _ _ Hplain H1 n).
    assert (Hplain' : forallb plain stmts' = true) by (rewrite <- (forallb_perm _ _ _ Hperm); exact Hplain).
    rewrite (regs_extends _ _ _ Hplain' H2 n).
    destruct (scope_get sc n); [reflexivity|].
    symmetry. apply first_of_perm; [exact Hnd | apply flat_map_perm; exact Hperm].
  Qed.
End Frag.

Lemma nodupb_NoDup l : nodupb l = true -> NoDup l.
Proof.
  induction l as [|x r IH]; cbn [nodupb]; intro H; [constructor|].
  apply Bool.andb_true_iff in H as [Hx Hr]. constructor; [|exact (IH Hr)].
  intro Hin. apply Bool.negb_true_iff in Hx.
  assert (mem x r = true) as Hm.
  { clear -Hin. induction r as [|y r IH]; [destruct Hin|]. cbn [mem existsb] in *. unfold mem in *. cbn [existsb].
    destruct Hin as [->|Hin]; [rewrite String.eqb_refl; reflexivity | rewrite (IH Hin); apply Bool.orb_true_r]. }
  congruence.
Qed.

(* the same, on the boolean premises the suite evaluates per module (spec/RootSpec.v order_premises) *)
Theorem root_context_independent_of_statement_order_b :
  forall locatable blacklisted base is_init stmts stmts' sc sc1,
    Permutation stmts stmts' ->
    forallb plain_stmt stmts && nodupb (map s_name (flat_map (binds base is_init) stmts)) = true ->
    regs locatable blacklisted base is_init stmts sc = ROk sc1 ->
    exists sc2, regs locatable blacklisted base is_init stmts' sc = ROk sc2 /\ forall n, scope_get sc2 n = scope_get sc1 n.
Proof.
  intros lo bl base is_init stmts stmts' sc sc1 Hperm Hb H.
  apply Bool.andb_true_iff in Hb as [Hp Hn].
  exact (root_context_independent_of_statement_order lo bl base is_init stmts stmts' sc sc1 Hperm Hp (nodupb_NoDup _ Hn) H).
Qed.

(* REFUTED: Python's module-level rule is "the LAST binding wins"; rattr keeps the first *)
Example first_binding_wins_refutes_last_binding :
  regs (fun _ => true) (fun _ => false) "m" false
       [TImportFrom (Some "lib") [mkAlias "parse" (Some "handle")] 0; TDef "handle"] []
  = ROk [mkSym "handle" (KImport "lib.parse")].
Proof. reflexivity. Qed.

(* REFUTED (finding KF_C06_2): `import p.x` binds the dotted name only - the name p is not bound *)
Example dotted_import_does_not_bind_the_package :
  exists sc, regs (fun _ => true) (fun _ => false) "m" false [TImport [mkAlias "p.x" None]] [] = ROk sc
             /\ scope_get sc "p" = None /\ scope_get sc "p.x" = Some (mkSym "p.x" (KImport "p.x")).
Proof. eexists. split; [reflexivity|]. split; reflexivity. Qed.

(* non-vacuity of the order theorem: a module with an import, a class, a conditional definition and a lambda *)
Example order_theorem_applies :
  let stmts := [TImport [mkAlias "os" None]; TClass "K"; TBlock [TDef "f"; TAssign (APlain ["v"]) ["v"]]; TAssign (ALambda true "lam") ["lam"]] in
  forallb plain_stmt stmts = true
  /\ NoDup (map s_name (flat_map (binds "m" false) stmts))
  /\ exists sc, regs (fun _ => true) (fun _ => false) "m" false stmts [] = ROk sc.
Proof.
  cbn. split; [reflexivity|]. split.
  - repeat constructor; cbn; intuition discriminate.
  - eexists; reflexivity.
Qed.
