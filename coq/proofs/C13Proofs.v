(* C13: relative-import arithmetic, prefix search and path-derived names. *)
From RattrV Require Import Base BaseFacts ModNames PyImport.
From Coq Require Import Lia.
Open Scope string_scope.
Open Scope list_scope.

(* ---------- C13a, list level: rattr's level arithmetic is importlib's ---------- *)

Lemma firstn_firstn_min (n m : nat) (l : list string) : firstn n (firstn m l) = firstn (Nat.min n m) l.
Proof. apply firstn_firstn. Qed.

Theorem derive_l_matches_python (modname : list string) (name : option (list string)) (level : nat) (is_init : bool) :
  1 <= level -> modname <> [] ->
  match py_resolve (package_of modname is_init) level name with
  | Some r => fst (derive_absolute_l modname name level is_init) = r
              /\ firstn (List.length (package_of modname is_init) - (level - 1)) (package_of modname is_init) <> []
  | None => fst (derive_absolute_l modname name level is_init) = match name with Some n => n | None => [] end
            /\ snd (derive_absolute_l modname name level is_init) = true
  end.
Proof.
  intros Hl Hne. unfold py_resolve, package_of, derive_absolute_l, drop_last.
  assert (Hlen : 1 <= List.length modname) by (destruct modname; simpl; [congruence|lia]).
  destruct is_init; simpl.
  - (* package __init__: package = the module itself, one level less to strip *)
    destruct (Nat.ltb_spec (List.length modname) level) as [Hlt|Hge].
    + assert (E : Nat.ltb 0 (level - 1) = true) by (apply Nat.ltb_lt; lia). rewrite E. simpl.
      replace (List.length modname - (level - 1)) with 0 by lia. simpl. auto.
    + destruct (Nat.ltb_spec 0 (level - 1)) as [Hpos|Hz]; simpl.
      * split; [reflexivity|].
        intros E. apply (f_equal (@List.length string)) in E. rewrite firstn_length in E. simpl in E. lia.
      * replace (List.length modname - (level - 1)) with (List.length modname) by lia.
        rewrite firstn_all. split; [reflexivity|]. exact Hne.
  - (* ordinary module: package = parent *)
    rewrite firstn_length.
    replace (Nat.min (List.length modname - 1) (List.length modname)) with (List.length modname - 1) by lia.
    assert (E : Nat.ltb 0 level = true) by (apply Nat.ltb_lt; lia). rewrite E. simpl.
    destruct (Nat.ltb_spec (List.length modname - 1) level) as [Hlt|Hge].
    + replace (List.length modname - level) with 0 by lia. simpl. auto.
    + rewrite firstn_firstn.
      replace (Nat.min (List.length modname - 1 - (level - 1)) (List.length modname - 1)) with (List.length modname - level) by lia.
      split; [reflexivity|].
      intros E'. apply (f_equal (@List.length string)) in E'. rewrite firstn_length in E'. simpl in E'. lia.
Qed.

(* ---------- strings: split / join round trip on dot-free components ---------- *)

Fixpoint dotfree (s : string) : bool :=
  match s with
  | EmptyString => true
  | String c r => negb (Ascii.eqb c dot) && dotfree r
  end.

Lemma append_assoc_s (a b c : string) : ((a ++ b) ++ c)%string = (a ++ (b ++ c))%string.
Proof. induction a; simpl; congruence. Qed.

Lemma append_nil_r_s (a : string) : (a ++ "")%string = a.
Proof. induction a; simpl; congruence. Qed.

Lemma split_aux_dotfree s : forall cur, dotfree s = true -> split_dot_aux s cur = [(cur ++ s)%string].
Proof.
  induction s as [|c r IH]; intros cur H; simpl in *.
  - rewrite append_nil_r_s. reflexivity.
  - apply andb_prop in H as [Hc Hr]. apply negb_true_iff in Hc. rewrite Hc.
    rewrite IH by exact Hr. rewrite append_assoc_s. reflexivity.
Qed.

Lemma split_aux_app s t : forall cur, dotfree s = true ->
  split_dot_aux (s ++ String dot t)%string cur = (cur ++ s)%string :: split_dot_aux t "".
Proof.
  induction s as [|c r IH]; intros cur H; simpl in *.
  - rewrite append_nil_r_s. reflexivity.
  - apply andb_prop in H as [Hc Hr]. apply negb_true_iff in Hc. rewrite Hc.
    rewrite IH by exact Hr. rewrite append_assoc_s. reflexivity.
Qed.

Lemma join_dot_cons x y l : join_dot (x :: y :: l) = (x ++ String dot (join_dot (y :: l)))%string.
Proof. reflexivity. Qed.

Lemma split_join (l : list string) :
  forallb dotfree l = true -> l <> [] -> split_dot (join_dot l) = l.
Proof.
  induction l as [|x l IH]; intros Hd Hne; [congruence|].
  simpl in Hd. apply andb_prop in Hd as [Hx Hl].
  destruct l as [|y l'].
  - unfold split_dot, join_dot. simpl. rewrite split_aux_dotfree by exact Hx. reflexivity.
  - rewrite join_dot_cons. unfold split_dot. rewrite split_aux_app by exact Hx. simpl.
    f_equal. apply IH; [exact Hl|discriminate].
Qed.

Lemma join_dot_app (a b : list string) :
  a <> [] -> b <> [] -> join_dot (a ++ b) = (join_dot a ++ String dot (join_dot b))%string.
Proof.
  induction a as [|x a IH]; intros Ha Hb; [congruence|].
  destruct a as [|y a'].
  - simpl. destruct b; [congruence|]. reflexivity.
  - change ((x :: y :: a') ++ b) with (x :: (y :: a') ++ b).
    destruct ((y :: a') ++ b) eqn:E; [discriminate|].
    rewrite join_dot_cons. rewrite IH by (auto; discriminate).
    rewrite join_dot_cons. rewrite append_assoc_s. reflexivity.
Qed.

(* ---------- C13a, string level: what the f-strings build ---------- *)

Theorem derive_matches_python (modname : list string) (name : option (list string)) (level : nat) (is_init : bool) :
  1 <= level -> modname <> [] ->
  forallb dotfree modname = true ->
  (forall n, name = Some n -> n <> []) ->
  let result := derive_absolute (join_dot modname) (option_map join_dot name) level is_init in
  match py_resolve (package_of modname is_init) level name with
  | Some r => result = join_dot r
  | None => starts_with_dot result = true \/ result = ""     (* never a well-formed other module name *)
  end.
Proof.
  intros Hl Hne Hdf Hname result.
  pose proof (derive_l_matches_python modname name level is_init Hl Hne) as HL.
  unfold result, derive_absolute. unfold derive_absolute_l in HL. simpl in HL.
  rewrite split_join by assumption.
  destruct (py_resolve (package_of modname is_init) level name) as [r|] eqn:Epy.
  - destruct HL as [HL Hbase]. subst r.
    unfold py_resolve in Epy.
    destruct (Nat.ltb (List.length (package_of modname is_init)) level); [discriminate|].
    injection Epy as Epy.
    (* the base part is non-empty, so join distributes *)
    set (lv := if is_init then level - 1 else level) in *.
    destruct (Nat.ltb 0 lv) eqn:Elv.
    + assert (Hb : drop_last lv modname <> []).
      { intros E0. rewrite E0 in Epy. simpl in Epy.
        destruct name as [n|]; simpl in Epy.
        - apply (f_equal (@List.length string)) in Epy. rewrite app_length in Epy.
          assert (List.length (firstn (List.length (package_of modname is_init) - (level - 1)) (package_of modname is_init)) <> 0).
          { intros Z. apply Hbase. destruct (firstn _ _); [reflexivity|discriminate]. }
          lia.
        - rewrite ?app_nil_r in Epy. first [exact (Hbase Epy) | symmetry in Epy; exact (Hbase Epy)]. }
      destruct name as [n|]; simpl.
      * rewrite join_dot_app; auto.
      * rewrite app_nil_r. reflexivity.
    + destruct name as [n|]; simpl.
      * rewrite join_dot_app; auto.
      * rewrite app_nil_r. reflexivity.
  - destruct HL as [HL Hs]. rewrite Hs. rewrite Hs in HL.
    destruct name as [n|]; simpl in *.
    + left.
      assert (E0 : drop_last (if is_init then level - 1 else level) modname = []).
      { destruct (drop_last _ modname) eqn:E; [reflexivity|].
        apply (f_equal (@List.length string)) in HL. rewrite app_length in HL. simpl in HL. lia. }
      rewrite E0. reflexivity.
    + right. rewrite app_nil_r in HL. rewrite HL. reflexivity.
Qed.

(* ---------- C13b: the prefix search returns the longest existing prefix ---------- *)

Section Prefix.
  Variable exists_mod : string -> bool.

  Lemma find_prefixes n parts :
    n <= List.length parts ->
    match find exists_mod (map join_dot (prefixes_from n parts)) with
    | Some m => exists k, 1 <= k <= n /\ m = join_dot (firstn k parts) /\ exists_mod m = true /\
                          forall k', k < k' <= n -> exists_mod (join_dot (firstn k' parts)) = false
    | None => forall k, 1 <= k <= n -> exists_mod (join_dot (firstn k parts)) = false
    end.
  Proof.
    induction n as [|n IH]; intros Hn; cbn [find map prefixes_from].
    - intros k Hk. lia.
    - destruct (exists_mod (join_dot (firstn (S n) parts))) eqn:E.
      + exists (S n). repeat split; auto; try lia.
      + specialize (IH ltac:(lia)).
        destruct (find exists_mod (map join_dot (prefixes_from n parts))) as [m|].
        * destruct IH as (k & Hk & Hm & Hex & Hlonger).
          exists k. repeat split; auto; try lia.
          intros k' Hk'. destruct (Nat.eq_dec k' (S n)) as [->|Hneq]; [exact E|apply Hlonger; lia].
        * intros k Hk. destruct (Nat.eq_dec k (S n)) as [->|Hneq]; [exact E|apply IH; lia].
  Qed.

  Theorem names_right_finds_longest parts :
    parts <> [] ->
    match find exists_mod (names_right parts) with
    | Some m => exists k, 1 <= k <= List.length parts /\ m = join_dot (firstn k parts) /\ exists_mod m = true /\
                          forall k', k < k' <= List.length parts -> exists_mod (join_dot (firstn k' parts)) = false
    | None => forall k, 1 <= k <= List.length parts -> exists_mod (join_dot (firstn k parts)) = false
    end.
  Proof.
    intros Hne. unfold names_right, names_right_l. destruct parts as [|p ps]; [congruence|].
    apply find_prefixes. lia.
  Qed.
End Prefix.

(* ---------- C13c: the path-derived name locates the same file, under stated hypotheses ---------- *)

Lemma suffixes_head (l : list string) : l <> [] -> exists r, suffixes_l l = l :: r.
Proof. destruct l; [congruence|]. intros _. eexists. reflexivity. Qed.

Section RoundTrip.
  Variable is_dir is_file : list string -> bool.
  Variable stdlib stdlib_exists : string -> bool.
  Variables (pre post : list (list string)) (R : list string).
  Let search_path := pre ++ R :: post.
  Let mexists := module_exists is_dir is_file search_path stdlib stdlib_exists.

  Variable comps : list string.      (* the file, absolute components *)
  Variable tn : list string.         (* its dotted name relative to R, as components *)

  Hypothesis Htn_ne : tn <> [].
  Hypothesis Hname_ne : join_dot tn <> "".
  Hypothesis Hdotfree : forallb dotfree (R ++ tn) = true.
  Hypothesis Hlongest : longest_possible comps = R ++ tn.
  (* the file find_module_in_path computes for R and tn is this file, and it exists *)
  Hypothesis Hfile : (if is_dir (R ++ tn) then (R ++ tn) ++ ["__init__.py"] else with_py (R ++ tn)) = comps.
  Hypothesis His_file : is_file comps = true.
  (* no earlier search-path entry provides the name *)
  Hypothesis Hfirst : forall d, In d pre -> find_module_in_path is_dir is_file d (join_dot tn) = None.
  (* no name clash: no longer suffix of the path names an existing module *)
  Hypothesis Hnoclash : forall s, In s (suffixes_l (R ++ tn)) -> List.length tn < List.length s -> mexists (join_dot s) = false.
  Hypothesis Hnotstd : stdlib (join_dot tn) = false.

  Lemma join_ne_empty l : l <> [] -> forallb dotfree l = true -> split_dot (join_dot l) = l.
  Proof. intros; apply split_join; auto. Qed.

  Lemma tn_dotfree : forallb dotfree tn = true.
  Proof. rewrite forallb_app in Hdotfree. apply andb_prop in Hdotfree. tauto. Qed.

  Lemma join_tn_nonempty : String.eqb (join_dot tn) "" = false.
  Proof. destruct (String.eqb_spec (join_dot tn) ""); [contradiction|reflexivity]. Qed.

  Lemma find_in_R : find_module_in_path is_dir is_file R (join_dot tn) = Some comps.
  Proof.
    unfold find_module_in_path. rewrite join_tn_nonempty, (split_join tn tn_dotfree Htn_ne).
    rewrite Hfile, His_file. reflexivity.
  Qed.

  Lemma first_some_app {A B} (f : A -> option B) l1 l2 :
    (forall x, In x l1 -> f x = None) -> first_some f (l1 ++ l2) = first_some f l2.
  Proof.
    induction l1 as [|x l1 IH]; intros H; simpl; [reflexivity|].
    rewrite (H x (or_introl eq_refl)). apply IH. intros y Hy. apply H. right. exact Hy.
  Qed.

  Theorem locate_tn : locate is_dir is_file search_path (join_dot tn) = Some comps.
  Proof.
    unfold locate, search_path. rewrite first_some_app by exact Hfirst. simpl. rewrite find_in_R. reflexivity.
  Qed.

  Lemma mexists_tn : mexists (join_dot tn) = true.
  Proof. unfold mexists, module_exists. rewrite Hnotstd, locate_tn. reflexivity. Qed.

  Lemma find_suffixes (l : list string) :
    (forall s, In s (suffixes_l (l ++ tn)) -> List.length tn < List.length s -> mexists (join_dot s) = false) ->
    find mexists (map join_dot (suffixes_l (l ++ tn))) = Some (join_dot tn).
  Proof.
    induction l as [|x l IH]; intros H; simpl.
    - destruct (suffixes_head tn Htn_ne) as (r & Hr). rewrite Hr. simpl. rewrite mexists_tn. reflexivity.
    - rewrite H; [|left; reflexivity|simpl; rewrite app_length; lia].
      apply IH. intros s Hs Hlen. apply H; [right; exact Hs|exact Hlen].
  Qed.

  Theorem derive_then_locate :
    derive_module_name_from_path is_dir is_file search_path stdlib stdlib_exists comps = Some (join_dot tn)
    /\ locate is_dir is_file search_path (join_dot tn) = Some comps.
  Proof.
    split; [|exact locate_tn].
    unfold derive_module_name_from_path, names_left. rewrite Hlongest.
    apply find_suffixes. exact Hnoclash.
  Qed.
End RoundTrip.

(* ---------- the unconditional round trip is false: a kernel-checked name-clash layout ---------- *)

Definition clash_files : list (list string) :=
  [["r"; "zpa"; "__init__.py"]; ["r"; "zpa"; "zma.py"];
   ["r"; "r"; "__init__.py"]; ["r"; "r"; "zpa"; "__init__.py"]; ["r"; "r"; "zpa"; "zma.py"]].
Definition clash_dirs : list (list string) := [["r"]; ["r"; "zpa"]; ["r"; "r"]; ["r"; "r"; "zpa"]].
Definition clash_is_file (p : list string) : bool := existsb (strs_eqb p) clash_files.
Definition clash_is_dir (p : list string) : bool := existsb (strs_eqb p) clash_dirs.
Definition nostd (_ : string) : bool := false.

Lemma clash_refutes_round_trip :
  let f := ["r"; "zpa"; "zma.py"] in
  clash_is_file f = true /\
  derive_module_name_from_path clash_is_dir clash_is_file [["r"]] nostd nostd f = Some "r.zpa.zma" /\
  locate clash_is_dir clash_is_file [["r"]] "r.zpa.zma" = Some ["r"; "r"; "zpa"; "zma.py"].
Proof. vm_compute. repeat split; reflexivity. Qed.

(* non-vacuity of derive_then_locate: a concrete tree meeting every hypothesis *)
Definition ok_files : list (list string) :=
  [["r"; "zpa"; "__init__.py"]; ["r"; "zpa"; "zma.py"]; ["r"; "zpa"; "zpb"; "__init__.py"]].
Definition ok_dirs : list (list string) := [["r"]; ["r"; "zpa"]; ["r"; "zpa"; "zpb"]].
Definition ok_is_file (p : list string) : bool := existsb (strs_eqb p) ok_files.
Definition ok_is_dir (p : list string) : bool := existsb (strs_eqb p) ok_dirs.

Lemma round_trip_example :
  derive_module_name_from_path ok_is_dir ok_is_file [["r"]] nostd nostd ["r"; "zpa"; "zpb"; "__init__.py"] = Some "zpa.zpb"
  /\ locate ok_is_dir ok_is_file [["r"]] "zpa.zpb" = Some ["r"; "zpa"; "zpb"; "__init__.py"]
  /\ longest_possible ["r"; "zpa"; "zpb"; "__init__.py"] = ["r"] ++ ["zpa"; "zpb"].
Proof. vm_compute. repeat split; reflexivity. Qed.

Lemma python_examples :
  py_resolve (package_of ["pkg"; "sub"; "mod"] false) 2 (Some ["x"]) = Some ["pkg"; "x"] /\
  py_resolve (package_of ["pkg"; "sub"] true) 1 None = Some ["pkg"; "sub"] /\
  py_resolve (package_of ["pkg"; "sub"; "mod"] false) 3 (Some ["x"]) = None /\
  derive_absolute "pkg.sub.mod" (Some "x") 3 false = ".x".
Proof. vm_compute. repeat split; reflexivity. Qed.
