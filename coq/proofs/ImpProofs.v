(* Import following: the BFS analyses only permitted modules, each origin once, and is closed under the
   imports of what it analyses; the resolver finds the definition through any chain of re-exports that keeps
   the local name, only in analysed and permitted modules; aliased from-imports and re-export cycles are
   refuted on the faithful model. *)
From RattrV Require Import Base BaseFacts Str Context CallSwaps FuncAn Results Imports.
From Coq Require Import Lia.
Open Scope string_scope.
Open Scope list_scope.

Section Proofs.
  Variable module_of : string -> option string.
  Variable origin_of : string -> option string.
  Variable blacklisted in_pip in_stdlib : string -> bool.
  Variable follow_local follow_pip follow_stdlib : bool.
  Variable imports_in : string -> list (string * string).
  Variable has_source : string -> bool.

  Notation permitted := (permitted blacklisted in_pip in_stdlib follow_pip follow_stdlib).
  Notation resolve_import := (resolve_import module_of blacklisted in_pip in_stdlib follow_local follow_pip follow_stdlib).
  Notation bfs := (bfs module_of origin_of blacklisted in_pip in_stdlib follow_pip follow_stdlib imports_in has_source).
  Notation analysed := (analysed module_of origin_of blacklisted in_pip in_stdlib follow_local follow_pip follow_stdlib imports_in has_source).

  (* ================= the BFS ================= *)
  Definition good (x : string * string) : Prop := permitted (fst x) = true /\ origin_of (fst x) = Some (snd x) /\ has_source (snd x) = true.

  Lemma bfs_incl_acc fuel : forall queue seen acc res,
    bfs fuel queue seen acc = Some res -> forall x, In x acc -> In x res.
  Proof.
    induction fuel as [|f IH]; intros queue seen acc res H x Hx; destruct queue as [|[n q] rest]; simpl in H.
    - injection H as <-. rewrite <- in_rev. exact Hx.
    - discriminate.
    - injection H as <-. rewrite <- in_rev. exact Hx.
    - destruct (module_of q) as [mn|]; [|eapply IH; eauto].
      destruct (origin_of mn) as [o|]; [|eapply IH; eauto].
      destruct (mem o seen); [eapply IH; eauto|].
      destruct (permitted mn); simpl in H; [|eapply IH; eauto].
      destruct (has_source o); simpl in H; [|eapply IH; eauto].
      eapply IH; [exact H|]. right. exact Hx.
  Qed.

  (* soundness: whatever is analysed passed the ladder *)
  Lemma bfs_good fuel : forall queue seen acc res,
    bfs fuel queue seen acc = Some res -> (forall x, In x acc -> good x) -> forall x, In x res -> good x.
  Proof.
    induction fuel as [|f IH]; intros queue seen acc res H Hacc x Hx; destruct queue as [|[n q] rest]; simpl in H.
    - injection H as <-. apply Hacc. rewrite in_rev. exact Hx.
    - discriminate.
    - injection H as <-. apply Hacc. rewrite in_rev. exact Hx.
    - destruct (module_of q) as [mn|] eqn:Em; [|eapply IH; eauto].
      destruct (origin_of mn) as [o|] eqn:Eo; [|eapply IH; eauto].
      destruct (mem o seen); [eapply IH; eauto|].
      destruct (permitted mn) eqn:Ep; simpl in H; [|eapply IH; eauto].
      destruct (has_source o) eqn:Eh; simpl in H; [|eapply IH; eauto].
      eapply IH; [exact H| |exact Hx].
      intros y [<-|Hy]; [repeat split; assumption|apply Hacc; exact Hy].
  Qed.

  (* each origin at most once *)
  Lemma bfs_nodup fuel : forall queue seen acc res,
    bfs fuel queue seen acc = Some res -> seen = map snd acc -> NoDup (map snd acc) -> NoDup (map snd res).
  Proof.
    induction fuel as [|f IH]; intros queue seen acc res H Hs Hnd; destruct queue as [|[n q] rest]; simpl in H.
    - injection H as <-. rewrite map_rev. apply NoDup_rev. exact Hnd.
    - discriminate.
    - injection H as <-. rewrite map_rev. apply NoDup_rev. exact Hnd.
    - destruct (module_of q) as [mn|]; [|eapply IH; eauto].
      destruct (origin_of mn) as [o|]; [|eapply IH; eauto].
      destruct (mem o seen) eqn:Es; [eapply IH; eauto|].
      destruct (permitted mn); simpl in H; [|eapply IH; eauto].
      destruct (has_source o); simpl in H; [|eapply IH; eauto].
      eapply IH; [exact H|simpl; f_equal; exact Hs|].
      simpl. constructor; [|exact Hnd].
      intros Hin. rewrite <- Hs in Hin. apply mem_true_iff in Hin. congruence.
  Qed.

  (* an import is handled w.r.t. a set of analysed origins: it does not resolve, is not permitted, or its
     module is among the analysed ones *)
  Definition handled (S : list string) (i : string * string) : Prop :=
    match module_of (snd i) with
    | None => True
    | Some mn => match origin_of mn with
                 | None => True
                 | Some o => permitted mn = false \/ has_source o = false \/ In o S
                 end
    end.

  Lemma handled_mono S S' i : incl S S' -> handled S i -> handled S' i.
  Proof.
    unfold handled. intros Hi H. destruct (module_of (snd i)) as [mn|]; [|exact I].
    destruct (origin_of mn) as [o|]; [|exact I]. destruct H as [H|[H|H]]; [left; exact H|right; left; exact H|right; right; apply Hi; exact H].
  Qed.

  (* completeness: at the end every import in the queue, and every import of every newly analysed module,
     is handled *)
  Lemma bfs_closed fuel : forall queue seen acc res,
    bfs fuel queue seen acc = Some res -> seen = map snd acc ->
    (forall i, In i queue -> handled (map snd res) i)
    /\ (forall x, In x res -> In x acc \/ forall i, In i (imports_in (snd x)) -> handled (map snd res) i).
  Proof.
    induction fuel as [|f IH]; intros queue seen acc res H Hs; destruct queue as [|[n q] rest]; simpl in H.
    - injection H as <-. split; [intros i []|]. intros x Hx. left. rewrite in_rev. exact Hx.
    - discriminate.
    - injection H as <-. split; [intros i []|]. intros x Hx. left. rewrite in_rev. exact Hx.
    - destruct (module_of q) as [mn|] eqn:Em.
      2:{ destruct (IH _ _ _ _ H Hs) as [H1 H2]. split; [|exact H2].
          intros i [<-|Hi]; [unfold handled; simpl; rewrite Em; exact I|apply H1; exact Hi]. }
      destruct (origin_of mn) as [o|] eqn:Eo.
      2:{ destruct (IH _ _ _ _ H Hs) as [H1 H2]. split; [|exact H2].
          intros i [<-|Hi]; [unfold handled; simpl; rewrite Em, Eo; exact I|apply H1; exact Hi]. }
      destruct (mem o seen) eqn:Es.
      { destruct (IH _ _ _ _ H Hs) as [H1 H2]. split; [|exact H2].
        intros i [<-|Hi]; [|apply H1; exact Hi]. unfold handled; simpl; rewrite Em, Eo. right. right.
        apply mem_true_iff in Es. rewrite Hs in Es. apply in_map_iff in Es. destruct Es as (y & <- & Hy).
        apply in_map. eapply bfs_incl_acc; eauto. }
      destruct (permitted mn) eqn:Ep; simpl in H.
      2:{ destruct (IH _ _ _ _ H Hs) as [H1 H2]. split; [|exact H2].
          intros i [<-|Hi]; [unfold handled; simpl; rewrite Em, Eo; left; exact Ep|apply H1; exact Hi]. }
      destruct (has_source o) eqn:Eh; simpl in H.
      2:{ destruct (IH _ _ _ _ H Hs) as [H1 H2]. split; [|exact H2].
          intros i [<-|Hi]; [unfold handled; simpl; rewrite Em, Eo; right; left; exact Eh|apply H1; exact Hi]. }
      assert (Hs' : o :: seen = map snd ((mn, o) :: acc)) by (simpl; f_equal; exact Hs).
      destruct (IH _ _ _ _ H Hs') as [H1 H2]. split.
      + intros i [<-|Hi]; [|apply H1; apply in_or_app; left; exact Hi].
        unfold handled; simpl; rewrite Em, Eo. right. right.
        change o with (snd (mn, o)). apply in_map. eapply bfs_incl_acc; [exact H|left; reflexivity].
      + intros x Hx. destruct (H2 x Hx) as [[<-|Hin]|Hall]; [|left; exact Hin|right; exact Hall].
        right. intros i Hi. apply H1. apply in_or_app. right. exact Hi.
  Qed.

  (* ---- the statements about a whole run ---- *)
  Theorem analysed_only_permitted fuel q0 res :
    analysed fuel q0 = Some res -> forall x, In x res -> good x /\ follow_local = true.
  Proof.
    unfold Imports.analysed. destruct follow_local; intros H x Hx.
    - split; [|reflexivity]. eapply bfs_good; [exact H|intros y []|exact Hx].
    - injection H as <-. destruct Hx.
  Qed.

  Theorem level0_analyses_nothing fuel q0 : follow_local = false -> analysed fuel q0 = Some [].
  Proof. unfold Imports.analysed. intros ->. reflexivity. Qed.

  Theorem analysed_each_origin_once fuel q0 res : analysed fuel q0 = Some res -> NoDup (map snd res).
  Proof.
    unfold Imports.analysed. destruct follow_local; intros H.
    - eapply bfs_nodup; [exact H|reflexivity|constructor].
    - injection H as <-. constructor.
  Qed.

  Theorem analysed_closed fuel q0 res :
    follow_local = true -> analysed fuel q0 = Some res ->
    (forall i, In i q0 -> handled (map snd res) i)
    /\ (forall x, In x res -> forall i, In i (imports_in (snd x)) -> handled (map snd res) i).
  Proof.
    unfold Imports.analysed. intros -> H. destruct (bfs_closed _ _ _ _ _ H eq_refl) as [H1 H2].
    split; [exact H1|]. intros x Hx. destruct (H2 x Hx) as [[]|Hall]. exact Hall.
  Qed.

  (* ================= the resolver ================= *)
  Lemma find_mod_name irs n m : find_mod irs n = Some m -> m_name m = n /\ In m irs.
  Proof.
    induction irs as [|a r IH]; simpl; [discriminate|].
    destruct (String.eqb (m_name a) n) eqn:E; intros H.
    - injection H as <-. apply String.eqb_eq in E. split; [exact E|left; reflexivity].
    - destruct (IH H) as [H1 H2]. split; [exact H1|right; exact H2].
  Qed.

  (* functions of modules that were not analysed, or are not permitted, contribute nothing *)
  Theorem resolved_only_in_analysed_permitted fuel irs : forall vis tn tq mn ln c,
    resolve_import fuel irs vis tn tq = RTarget mn ln c ->
    (exists m, In m irs /\ m_name m = mn /\ In ln (m_ir m)) /\ permitted mn = true /\ follow_local = true.
  Proof.
    induction fuel as [|f IH]; intros vis tn tq mn ln c H; simpl in H; [discriminate|].
    destruct (module_of tq) as [mn0|]; [|discriminate].
    destruct (mem tq vis); [discriminate|].
    destruct (blacklisted mn0) eqn:Eb; [discriminate|].
    destruct follow_local eqn:Efl; simpl in H; [|discriminate].
    destruct (negb follow_pip && in_pip mn0) eqn:Ep; [discriminate|].
    destruct (negb follow_stdlib && in_stdlib mn0) eqn:Es; [discriminate|].
    destruct (find_mod irs mn0) as [m|] eqn:Ef; [|discriminate].
    destruct (find_mod_name _ _ _ Ef) as [Hn Hin].
    assert (Hperm : permitted mn0 = true).
    { unfold Imports.permitted. rewrite Eb. simpl.
      destruct follow_pip, follow_stdlib, (in_pip mn0), (in_stdlib mn0); simpl in *; congruence. }
    destruct (clookup (m_ctx m) (local_name tn mn0)) as [[| |n q|]|] eqn:El; try discriminate.
    - destruct (mem (local_name tn mn0) (m_ir m)) eqn:Em; [|discriminate]. injection H as <- <- <-.
      split; [|split; [exact Hperm|reflexivity]]. exists m. repeat split; auto. apply mem_true_iff. exact Em.
    - destruct (mem (local_name tn mn0) (m_ir m)) eqn:Em; [|discriminate]. injection H as <- <- <-.
      split; [|split; [exact Hperm|reflexivity]]. exists m. repeat split; auto. apply mem_true_iff. exact Em.
    - destruct (IH _ _ _ _ _ _ H) as (H1 & H2 & H3). split; [exact H1|split; [exact H2|reflexivity]].
  Qed.

  (* one step: the module is analysed and permitted, so the resolver looks the local name up there *)
  Definition reaches (irs : list modl) (tq : string) (m : modl) : Prop :=
    module_of tq = Some (m_name m) /\ find_mod irs (m_name m) = Some m /\ permitted (m_name m) = true.

  Lemma resolve_step f irs vis tn tq m :
    follow_local = true -> reaches irs tq m -> mem tq vis = false ->
    resolve_import (S f) irs vis tn tq =
      match clookup (m_ctx m) (local_name tn (m_name m)) with
      | Some MFunc => if mem (local_name tn (m_name m)) (m_ir m) then RTarget (m_name m) (local_name tn (m_name m)) false else RNone
      | Some MClass => if mem (local_name tn (m_name m)) (m_ir m) then RTarget (m_name m) (local_name tn (m_name m)) true else RNone
      | Some (MImport n q) => resolve_import f irs (tq :: vis) n q
      | _ => RNone
      end.
  Proof.
    intros Hfl (Hm & Hf & Hp) Hv. simpl. rewrite Hm, Hv, Hfl. unfold Imports.permitted in Hp.
    destruct (blacklisted (m_name m)); [discriminate|]. simpl in *.
    destruct follow_pip, follow_stdlib, (in_pip (m_name m)), (in_stdlib (m_name m)); simpl in *; try discriminate; rewrite Hf; reflexivity.
  Qed.

  (* a chain of re-exports: each module on the way binds the (local) name to a further import; the last one
     defines the function.  Any length. *)
  Inductive chain (irs : list modl) : list string -> string -> string -> string -> string -> bool -> Prop :=
  | chain_def (vis : list string) (tn tq : string) (m : modl) (c : bool) :
      reaches irs tq m -> mem tq vis = false ->
      clookup (m_ctx m) (local_name tn (m_name m)) = Some (if c then MClass else MFunc) ->
      In (local_name tn (m_name m)) (m_ir m) ->
      chain irs vis tn tq (m_name m) (local_name tn (m_name m)) c
  | chain_reexport (vis : list string) (tn tq : string) (m : modl) (n q mn ln : string) (c : bool) :
      reaches irs tq m -> mem tq vis = false ->          (* no name is re-exported twice on the way: the chain is not a cycle *)
      clookup (m_ctx m) (local_name tn (m_name m)) = Some (MImport n q) ->
      chain irs (tq :: vis) n q mn ln c ->
      chain irs vis tn tq mn ln c.

  Theorem resolve_follows_chain irs vis tn tq mn ln c :
    follow_local = true -> chain irs vis tn tq mn ln c ->
    exists n, forall fuel, n <= fuel -> resolve_import fuel irs vis tn tq = RTarget mn ln c.
  Proof.
    intros Hfl H. induction H as [vis tn tq m c Hr Hv Hl Hin|vis tn tq m n q mn ln c Hr Hv Hl _ IH].
    - exists 1. intros [|f] Hle; [lia|]. rewrite (resolve_step f irs vis tn tq m Hfl Hr Hv), Hl.
      apply mem_true_iff in Hin. destruct c; rewrite Hin; reflexivity.
    - destruct IH as (k & Hk). exists (S k). intros [|f] Hle; [lia|].
      rewrite (resolve_step f irs vis tn tq m Hfl Hr Hv), Hl. apply Hk. lia.
  Qed.

  (* a name re-exported in a cycle is cut: the second visit of a qualified name answers "nothing" *)
  Theorem revisited_name_resolves_to_nothing f irs vis tn tq mn :
    module_of tq = Some mn -> mem tq vis = true -> resolve_import (S f) irs vis tn tq = RNone.
  Proof. intros Hm Hv. simpl. rewrite Hm, Hv. reflexivity. Qed.
End Proofs.

(* ================= linking: an imported call expands exactly like a local call to the definition ================= *)
Lemma link_import_like_local module_of bl pip std fl fp fs fuel irs owner excluded E c nm q mn ln :
  c_target c = Some (mkSym nm (KImport q)) ->
  resolve_import module_of bl pip std fl fp fs fuel irs [] nm q = RTarget mn ln false ->
  resolve excluded E (link_call module_of bl pip std fl fp fs fuel irs owner c)
  = resolve excluded E (mkCallRec (c_name c) (c_args c) (c_kw c) (Some (mkSym (qid mn ln) KFunc))).
Proof. intros Ht Hr. unfold link_call, link_target. rewrite Ht, Hr. reflexivity. Qed.

Lemma link_unresolved_contributes_nothing module_of bl pip std fl fp fs fuel irs owner excluded E c nm q :
  c_target c = Some (mkSym nm (KImport q)) ->
  (forall mn ln k, resolve_import module_of bl pip std fl fp fs fuel irs [] nm q <> RTarget mn ln k) ->
  resolve excluded E (link_call module_of bl pip std fl fp fs fuel irs owner c) = None.
Proof.
  intros Ht Hr. unfold link_call, link_target, resolve. rewrite Ht. simpl.
  destruct (resolve_import module_of bl pip std fl fp fs fuel irs [] nm q) as [mn ln [|]| | |] eqn:E0; try reflexivity;
    exfalso; eapply Hr; reflexivity.
Qed.

(* ================= refutations on the faithful model ================= *)
Definition ex_locator (q : string) : option string :=
  if String.eqb q "m.f" then Some "m" else if String.eqb q "a.f" then Some "a" else if String.eqb q "b.f" then Some "b" else None.
Definition no (_ : string) : bool := false.
Definition ex_m : modl := mkMod "m" [("f", MFunc)] ["f"].

(* `from m import f` resolves; `from m import f as g` does not: the lookup uses the alias (finding KF_C06_1) *)
Lemma plain_from_import_resolves :
  resolve_import ex_locator no no no true false false 3 [ex_m] [] "f" "m.f" = RTarget "m" "f" false.
Proof. reflexivity. Qed.
Lemma aliased_from_import_refuted :
  resolve_import ex_locator no no no true false false 3 [ex_m] [] "g" "m.f" = RNone.
Proof. reflexivity. Qed.

(* a re-export cycle (a: from b import f; b: from a import f) is cut at the second visit of a.f: with any
   fuel >= 3 the answer is "nothing" (after fix 99a8b20; before it the recursion had no guard) *)
Definition cyc : list modl := [mkMod "a" [("f", MImport "f" "b.f")] []; mkMod "b" [("f", MImport "f" "a.f")] []].
Lemma reexport_cycle_terminates : forall fuel, 3 <= fuel -> resolve_import ex_locator no no no true false false fuel cyc [] "f" "a.f" = RNone.
Proof. intros [|[|[|f]]] H; try lia. reflexivity. Qed.

(* a chain of length two as an instance of the general theorem's premises *)
Definition ch : list modl := [mkMod "a" [("f", MImport "f" "m.f")] []; ex_m].
Example chain_example : resolve_import ex_locator no no no true false false 5 ch [] "f" "a.f" = RTarget "m" "f" false.
Proof. reflexivity. Qed.

(* ================= termination of the import BFS =================
   With a finite universe U of origins and at most B imports per module, the BFS ends within
   |queue| + |U| * B + 1 steps: the fuel bound is never the reason for stopping. *)
Section Termination.
  Variable module_of : string -> option string.
  Variable origin_of : string -> option string.
  Variable blacklisted in_pip in_stdlib : string -> bool.
  Variable follow_pip follow_stdlib : bool.
  Variable imports_in : string -> list (string * string).
  Variable has_source : string -> bool.
  Variable U : list string.
  Variable B : nat.
  Hypothesis origins_in_U : forall q mn o, module_of q = Some mn -> origin_of mn = Some o -> In o U.
  Hypothesis imports_bounded : forall o, List.length (imports_in o) <= B.

  Notation bfs := (bfs module_of origin_of blacklisted in_pip in_stdlib follow_pip follow_stdlib imports_in has_source).

  Definition unseen (seen : list string) : nat := List.length (filter (fun o => negb (mem o seen)) U).

  Lemma filter_len_le (l : list string) (f g : string -> bool) :
    (forall x, g x = true -> f x = true) -> List.length (filter g l) <= List.length (filter f l).
  Proof.
    intros H. induction l as [|x l IH]; simpl; [lia|].
    destruct (g x) eqn:Eg; [rewrite (H x Eg); simpl; lia|destruct (f x); simpl; lia].
  Qed.

  Lemma filter_len_lt (l : list string) (f g : string -> bool) o :
    (forall x, g x = true -> f x = true) -> In o l -> f o = true -> g o = false ->
    List.length (filter g l) < List.length (filter f l).
  Proof.
    intros H Hin Hf Hg. induction l as [|x l IH]; [destruct Hin|]. simpl. destruct Hin as [->|Hin].
    - rewrite Hf, Hg. simpl. pose proof (filter_len_le l f g H). lia.
    - specialize (IH Hin). destruct (g x) eqn:Eg; [rewrite (H x Eg); simpl; lia|destruct (f x); simpl; lia].
  Qed.

  Lemma unseen_decreases o seen : In o U -> mem o seen = false -> unseen (o :: seen) < unseen seen.
  Proof.
    intros Hin Hm. unfold unseen. apply (filter_len_lt U _ _ o); auto.
    - intros x Hx. simpl in Hx. destruct (String.eqb x o); [discriminate|exact Hx].
    - rewrite Hm. reflexivity.
    - simpl. rewrite String.eqb_refl. reflexivity.
  Qed.

  Theorem bfs_terminates fuel : forall queue seen acc,
    List.length queue + unseen seen * B + 1 <= fuel -> bfs fuel queue seen acc <> None.
  Proof.
    induction fuel as [|f IH]; intros queue seen acc Hf; [lia|].
    destruct queue as [|[n q] rest]; simpl; [discriminate|]. simpl in Hf.
    destruct (module_of q) as [mn|] eqn:Em; [|apply IH; lia].
    destruct (origin_of mn) as [o|] eqn:Eo; [|apply IH; lia].
    destruct (mem o seen) eqn:Es; [apply IH; lia|].
    destruct (permitted blacklisted in_pip in_stdlib follow_pip follow_stdlib mn); simpl; [|apply IH; lia].
    destruct (has_source o); simpl; [|apply IH; lia].
    apply IH. rewrite app_length. pose proof (imports_bounded o) as Hb.
    pose proof (unseen_decreases o seen (origins_in_U _ _ _ Em Eo) Es) as Hd. nia.
  Qed.
End Termination.

(* ================= termination of the resolver =================
   With the visited set, resolve_import ends within (number of not yet visited qualified names) + 1 steps:
   the fuel is never the reason for stopping - for every environment, re-export cycles included. *)
Section ResolverTermination.
  Variable module_of : string -> option string.
  Variable blacklisted in_pip in_stdlib : string -> bool.
  Variable follow_local follow_pip follow_stdlib : bool.
  Variable irs : list modl.
  Variable Q : list string.             (* the qualified names of all import symbols of the environment *)
  Hypothesis ctx_imports_in_Q :
    forall m ln n q, In m irs -> clookup (m_ctx m) ln = Some (MImport n q) -> In q Q.

  Notation resolve_import := (resolve_import module_of blacklisted in_pip in_stdlib follow_local follow_pip follow_stdlib).

  Definition unvisited (vis : list string) : nat := List.length (filter (fun q => negb (mem q vis)) Q).

  Lemma unvisited_decreases q vis : In q Q -> mem q vis = false -> unvisited (q :: vis) < unvisited vis.
  Proof.
    intros Hin Hm. unfold unvisited. apply (filter_len_lt Q _ _ q); auto.
    - intros x Hx. simpl in Hx. destruct (String.eqb x q); [discriminate|exact Hx].
    - rewrite Hm. reflexivity.
    - simpl. rewrite String.eqb_refl. reflexivity.
  Qed.

  Theorem resolve_never_out_of_fuel fuel : forall vis tn tq,
    In tq Q -> unvisited vis + 1 <= fuel -> resolve_import fuel irs vis tn tq <> RFuel.
  Proof.
    induction fuel as [|f IH]; intros vis tn tq Hq Hf; [lia|]. simpl.
    destruct (module_of tq) as [mn|]; [|discriminate].
    destruct (mem tq vis) eqn:Ev; [discriminate|].
    destruct (blacklisted mn); [discriminate|].
    destruct (negb follow_local); [discriminate|].
    destruct (negb follow_pip && in_pip mn); [discriminate|].
    destruct (negb follow_stdlib && in_stdlib mn); [discriminate|].
    destruct (find_mod irs mn) as [m|] eqn:Ef; [|discriminate].
    destruct (clookup (m_ctx m) (local_name tn mn)) as [[| |n q|]|] eqn:El; try discriminate.
    - destruct (mem (local_name tn mn) (m_ir m)); intro Hx; discriminate Hx.
    - destruct (mem (local_name tn mn) (m_ir m)); intro Hx; discriminate Hx.
    - apply IH.
      + eapply ctx_imports_in_Q; [|exact El]. destruct (find_mod_name _ _ _ Ef) as [_ Hin]. exact Hin.
      + pose proof (unvisited_decreases tq vis Hq Ev). lia.
  Qed.
End ResolverTermination.
