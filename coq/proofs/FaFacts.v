(* Facts about the FunctionAnalyser model (model/FuncAn.v) that hold for every node, every state
   and every outcome: helper functions only read the state; every visitor only ever ADDS to the IR
   and APPENDS warnings (so a partial run that ended Fatal / Raise still reports only things that
   were visited, and nothing reported is ever retracted). *)
From RattrV Require Import Base BaseFacts Str PyAst Naming Context FuncAn PyAstInd.
Open Scope string_scope.
Open Scope list_scope.

(* ---------- state extension ---------- *)

Record ext (s s' : vstate) : Prop := mkExt {
  ext_gets : forall x, rmem x (v_gets s) = true -> rmem x (v_gets s') = true;
  ext_sets : forall x, rmem x (v_sets s) = true -> rmem x (v_sets s') = true;
  ext_dels : forall x, rmem x (v_dels s) = true -> rmem x (v_dels s') = true;
  ext_calls : forall c, cmem c (v_calls s) = true -> cmem c (v_calls s') = true;
  ext_warn : exists w, v_warn s' = v_warn s ++ w }.

Lemma ext_refl s : ext s s.
Proof. constructor; auto. exists []. rewrite app_nil_r. reflexivity. Qed.

Lemma ext_trans a b c : ext a b -> ext b c -> ext a c.
Proof.
  intros [g1 s1 d1 c1 [w1 e1]] [g2 s2 d2 c2 [w2 e2]]. constructor; auto.
  exists (w1 ++ w2). rewrite e2, e1, app_assoc. reflexivity.
Qed.

Definition mono {A} (m : M A) : Prop := forall s, ext s (snd (m s)).
Definition reader {A} (m : M A) : Prop := forall s, snd (m s) = s.

Lemma reader_mono {A} (m : M A) : reader m -> mono m.
Proof. intros H s. rewrite H. apply ext_refl. Qed.

Lemma reader_ret {A} (a : A) : reader (ret a). Proof. intros s; reflexivity. Qed.
Lemma reader_fatal {A} : reader (@fatal A). Proof. intros s; reflexivity. Qed.
Lemma reader_raise {A} c : reader (@raise A c). Proof. intros s; reflexivity. Qed.
Lemma reader_unmodelled {A} : reader (@unmodelled A). Proof. intros s; reflexivity. Qed.
Lemma reader_get_ctx : reader get_ctx. Proof. intros s; reflexivity. Qed.
Lemma reader_lift r : reader (lift_names r). Proof. destruct r; intros s; reflexivity. Qed.

Lemma reader_bind {A B} (m : M A) (k : A -> M B) :
  reader m -> (forall a, reader (k a)) -> reader (bind m k).
Proof.
  intros Hm Hk s. unfold bind. specialize (Hm s).
  destruct (m s) as [[a| |c|] s1]; simpl in *; subst; auto. apply Hk.
Qed.

Lemma mono_bind {A B} (m : M A) (k : A -> M B) :
  mono m -> (forall a, mono (k a)) -> mono (bind m k).
Proof.
  intros Hm Hk s. unfold bind. specialize (Hm s).
  destruct (m s) as [[a| |c|] s1]; simpl in *; auto.
  eapply ext_trans; [exact Hm|apply Hk].
Qed.

Lemma mono_ret {A} (a : A) : mono (ret a). Proof. apply reader_mono, reader_ret. Qed.
Lemma mono_fatal {A} : mono (@fatal A). Proof. apply reader_mono, reader_fatal. Qed.
Lemma mono_raise {A} c : mono (@raise A c). Proof. apply reader_mono, reader_raise. Qed.
Lemma mono_unmodelled {A} : mono (@unmodelled A). Proof. apply reader_mono, reader_unmodelled. Qed.

Lemma rmem_radd x y l : rmem x l = true -> rmem x (radd y l) = true.
Proof.
  unfold radd. destruct (rmem y l); auto. intros H.
  induction l as [|z l IH]; simpl in *; [discriminate|].
  destruct (rname_eqb x z); simpl in *; auto.
Qed.

Lemma rmem_radd_self x l : rmem x (radd x l) = true.
Proof.
  unfold radd. destruct (rmem x l) eqn:E; auto.
  induction l as [|z l IH]; simpl in *.
  - unfold rname_eqb. rewrite !String.eqb_refl. reflexivity.
  - destruct (rname_eqb x z); simpl in *; [discriminate|auto].
Qed.

Lemma cmem_app c l l2 : cmem c l = true -> cmem c (l ++ l2) = true.
Proof. induction l as [|z l IH]; simpl; [discriminate|]. destruct (callrec_eqb c z); simpl; auto. Qed.

Lemma mono_add_get x : mono (add_get x).
Proof. intros s. constructor; simpl; auto using rmem_radd. exists []. rewrite app_nil_r. reflexivity. Qed.
Lemma mono_add_set x : mono (add_set x).
Proof. intros s. constructor; simpl; auto using rmem_radd. exists []. rewrite app_nil_r. reflexivity. Qed.
Lemma mono_add_del x : mono (add_del x).
Proof. intros s. constructor; simpl; auto using rmem_radd. exists []. rewrite app_nil_r. reflexivity. Qed.
Lemma mono_add_call c : mono (add_call c).
Proof.
  intros s. constructor; simpl; auto.
  - intros c0 H. destruct (cmem c (v_calls s)); auto using cmem_app.
  - exists []. rewrite app_nil_r. reflexivity.
Qed.
Lemma mono_add_warn b p : mono (add_warn b p).
Proof. intros s. constructor; simpl; auto. eexists. reflexivity. Qed.
Lemma mono_mod_ctx f : mono (mod_ctx f).
Proof. intros s. constructor; simpl; auto. exists []. rewrite app_nil_r. reflexivity. Qed.
Lemma mono_update_results x c : mono (update_results x c).
Proof. destruct c; [apply mono_add_get|apply mono_add_set|apply mono_add_del]. Qed.

Lemma mono_mapM_ {A} (f : A -> M unit) l : (forall x, mono (f x)) -> mono (mapM_ f l).
Proof. intros H. induction l; simpl; [apply mono_ret|]. apply mono_bind; auto. Qed.

Lemma mono_mapM_Forall (f : node -> M unit) l : Forall (fun x => mono (f x)) l -> mono (mapM_ f l).
Proof. induction 1; simpl; [apply mono_ret|]. apply mono_bind; auto. Qed.

(* ---------- the helper functions only read the state ---------- *)

Lemma reader_unravel_gen full : forall n, reader (unravel_gen full n).
Proof.
  induction n using node_children_ind. rename H into IH.
  destruct n; simpl; try (apply reader_raise);
    try (apply reader_bind; [apply reader_lift|intros; apply reader_ret]);
    try (apply reader_bind; [apply reader_ret|intros; apply reader_ret]).
  destruct k; try apply reader_raise.
  - simpl in IH. induction es as [|e es IHes]; [apply reader_ret|].
    inversion IH; subst. apply reader_bind; [assumption|]. intros a.
    apply reader_bind; [apply IHes; assumption|]. intros b. apply reader_ret.
  - simpl in IH. induction es as [|e es IHes]; [apply reader_ret|].
    inversion IH; subst. apply reader_bind; [assumption|]. intros a.
    apply reader_bind; [apply IHes; assumption|]. intros b. apply reader_ret.
Qed.

Lemma reader_unravel_names : forall n, reader (unravel_names n).
Proof. exact (reader_unravel_gen false). Qed.

Lemma reader_arg_names args : reader (arg_names args).
Proof.
  induction args; simpl; [apply reader_ret|].
  apply reader_bind; [apply reader_lift|]. intros. apply reader_bind; [assumption|]. intros. apply reader_ret.
Qed.

Lemma reader_kwarg_names kws : forall d, reader (kwarg_names kws d).
Proof.
  induction kws as [|k kws IH]; intros d; simpl; [apply reader_ret|].
  destruct k; auto. destruct arg; auto.
  apply reader_bind; [apply reader_lift|]. intros. apply IH.
Qed.

Lemma reader_make_call f a k t s : reader (make_call f a k t s).
Proof.
  unfold make_call. apply reader_bind; [apply reader_arg_names|]. intros.
  apply reader_bind; [apply reader_kwarg_names|]. intros. apply reader_ret.
Qed.

Lemma reader_target_is_namedtuple c : reader (target_is_namedtuple c).
Proof. destruct c; simpl; try apply reader_ret. apply reader_bind; [apply reader_lift|]. intros. apply reader_ret. Qed.

Lemma reader_any_namedtuple es : reader (any_namedtuple es).
Proof.
  induction es as [|e es IH]; simpl; [apply reader_ret|].
  destruct (is_call e); auto. apply reader_bind; [apply reader_target_is_namedtuple|].
  intros b. destruct b; [apply reader_ret|exact IH].
Qed.

Lemma reader_namedtuple_in_rhs v : reader (namedtuple_in_rhs v).
Proof.
  destruct v as [v|]; simpl; [|apply reader_ret].
  destruct (is_call v); [apply reader_target_is_namedtuple|].
  destruct (is_seq_tl v); [apply reader_any_namedtuple|apply reader_ret].
Qed.

Section WithOracle.
  Variable mexists : string -> bool.
  Variable modulename : option string.

  Lemma reader_call_target c : reader (call_target mexists c).
  Proof. unfold call_target. apply reader_bind; [apply reader_get_ctx|]. intros. apply reader_ret. Qed.

  Lemma reader_expr_is_class e : reader (expr_is_class mexists e).
  Proof.
    unfold expr_is_class. apply reader_bind; [apply reader_lift|]. intros.
    apply reader_bind; [apply reader_call_target|]. intros. apply reader_ret.
  Qed.

  Lemma reader_any_class es : reader (any_class mexists es).
  Proof.
    induction es as [|e es IH]; simpl; [apply reader_ret|].
    apply reader_bind; [apply reader_expr_is_class|]. intros b. destruct b; [apply reader_ret|exact IH].
  Qed.

  Lemma reader_class_in_rhs v : reader (class_in_rhs mexists v).
  Proof.
    destruct v as [v|]; simpl; [|apply reader_ret].
    destruct (is_call v); [apply reader_expr_is_class|].
    destruct (is_seq_tl v); [apply reader_any_class|apply reader_ret].
  Qed.

  Lemma mono_add_identifiers t : mono (add_identifiers t).
  Proof.
    unfold add_identifiers. apply mono_bind; [apply reader_mono, reader_unravel_gen|].
    intros. apply mono_mapM_. intros. apply mono_mod_ctx.
  Qed.
  Lemma mono_remove_identifiers t : mono (remove_identifiers t).
  Proof.
    unfold remove_identifiers. apply mono_bind; [apply reader_mono, reader_unravel_gen|].
    intros. apply mono_mapM_. intros. apply mono_mod_ctx.
  Qed.
  Lemma mono_add_arguments ps : mono (add_arguments ps).
  Proof. unfold add_arguments. apply mono_mapM_. intros. apply mono_mod_ctx. Qed.

  Lemma mono_get_and_verify n c : mono (get_and_verify_name n c).
  Proof.
    unfold get_and_verify_name. apply mono_bind; [apply reader_mono, reader_lift|]. intros bf.
    apply mono_bind; [apply reader_mono, reader_get_ctx|]. intros cx.
    apply mono_bind; [|intros; apply mono_ret].
    destruct (_ && _); [apply mono_add_warn|apply mono_ret].
  Qed.

  Lemma mono_attr_analyser fn tn call : mono (attr_analyser fn tn call).
  Proof.
    unfold attr_analyser. destruct (xpair_call tn call); [|apply mono_fatal|apply mono_raise].
    destruct (String.eqb fn "setattr").
    - apply mono_bind; [apply mono_mapM_; intros; apply mono_add_get|intros; apply mono_add_set].
    - destruct (String.eqb fn "delattr").
      + apply mono_bind; [apply mono_mapM_; intros; apply mono_add_get|intros; apply mono_add_del].
      + apply mono_bind; [apply mono_add_get|intros; apply mono_mapM_; intros; apply mono_add_get].
  Qed.

  Lemma mono_class_assign_pre t f a k p ts : mono (class_assign_pre mexists t f a k p ts).
  Proof.
    unfold class_assign_pre.
    apply mono_bind; [apply reader_mono, reader_lift|]. intros.
    apply mono_bind; [apply reader_mono, reader_lift|]. intros.
    apply mono_bind; [apply reader_mono, reader_call_target|]. intros.
    apply mono_bind; [apply reader_mono, reader_make_call|]. intros.
    apply mono_bind; [apply mono_add_call|]. intros.
    apply mono_bind; [apply mono_add_set|]. intros.
    apply mono_mapM_. intros. apply mono_add_identifiers.
  Qed.
End WithOracle.
