(* C11: ignored / excluded definitions get no IR entry, so they are no result key and no call resolves to
   them; a rattr_results declaration is accepted iff it is well formed, and then the entry is exactly the
   declaration. *)
From RattrV Require Import Base BaseFacts Str Context CallSwaps FuncAn Results Annot.
Open Scope string_scope.
Open Scope list_scope.

Section C11.
  Variable name_ok : string -> bool.
  Variable excluded : string -> bool.
  Notation annotation := (annotation name_ok).
  Notation def_entry := (def_entry name_ok excluded).
  Notation file_entries := (file_entries name_ok excluded).

  (* ---- well-formedness, written independently of the validator ---- *)
  Inductive wf_name : pyval -> Prop := wf_name_intro s : name_ok s = true -> wf_name (VStr s).
  Definition wf_name_set (v : pyval) : Prop := exists l, v = VSet l /\ Forall wf_name l.
  Inductive wf_spec : pyval -> Prop :=
  | wf_spec_intro t pos kvs : wf_name t -> Forall wf_name pos -> Forall (fun kv => wf_name (fst kv) /\ wf_name (snd kv)) kvs ->
                              wf_spec (VTuple [t; VTuple [VList pos; VDict kvs]]).
  Definition wf_calls (v : pyval) : Prop := exists l, v = VList l /\ Forall wf_spec l.

  Lemma is_name_iff v : is_name name_ok v = true <-> wf_name v.
  Proof. split; [destruct v; simpl; try discriminate; intros H; constructor; exact H|intros [s H]; exact H]. Qed.

  Lemma forallb_is_name l : forallb (is_name name_ok) l = true <-> Forall wf_name l.
  Proof. rewrite forallb_forall, Forall_forall. split; intros H x Hx; apply is_name_iff; apply H; exact Hx. Qed.

  Lemma set_of_names_iff v : is_set_of_names name_ok v = true <-> wf_name_set v.
  Proof.
    split.
    - destruct v; simpl; try discriminate. intros H. exists l. split; [reflexivity|apply forallb_is_name; exact H].
    - intros (l & -> & H). simpl. apply forallb_is_name. exact H.
  Qed.

  Lemma call_spec_iff v : call_spec_ok name_ok v = true <-> wf_spec v.
  Proof.
    split.
    - unfold call_spec_ok. intros H.
      repeat match type of H with
             | match ?x with _ => _ end = true => destruct x; try discriminate H
             end.
      apply andb_prop in H. destruct H as [H Hk]. apply andb_prop in H. destruct H as [Ht Hp].
      match type of Hp with is_list_of_names _ ?p = true => destruct p; simpl in Hp; try discriminate Hp end.
      constructor; [apply is_name_iff; exact Ht|apply forallb_is_name; exact Hp|].
      rewrite forallb_forall in Hk. apply Forall_forall. intros kv Hkv. specialize (Hk kv Hkv).
      apply andb_prop in Hk. destruct Hk as [H1 H2]. split; apply is_name_iff; assumption.
    - intros [t pos kvs Ht Hp Hk]. simpl. apply is_name_iff in Ht. rewrite Ht. simpl.
      apply forallb_is_name in Hp. rewrite Hp. simpl. apply forallb_forall. intros kv Hkv.
      rewrite Forall_forall in Hk. destruct (Hk kv Hkv) as [H1 H2]. apply is_name_iff in H1, H2. rewrite H1, H2. reflexivity.
  Qed.

  Lemma call_specs_iff v : is_list_of_call_specs name_ok v = true <-> wf_calls v.
  Proof.
    split.
    - destruct v; simpl; try discriminate. intros H. exists l. split; [reflexivity|].
      rewrite forallb_forall in H. apply Forall_forall. intros x Hx. apply call_spec_iff. apply H. exact Hx.
    - intros (l & -> & H). simpl. apply forallb_forall. intros x Hx. rewrite Forall_forall in H. apply call_spec_iff. apply H. exact Hx.
  Qed.

  (* the declaration as a whole *)
  Definition wf_annotation (pos : list pyval) (kw : list (option string * pyval)) : Prop :=
    forallb evaluable pos = true /\ forallb (fun kv => evaluable (snd kv)) kw = true /\ pos = []
    /\ forallb (fun kv => allowed_key (fst kv)) kw = true
    /\ wf_name_set (kwget kw "gets" (VSet [])) /\ wf_name_set (kwget kw "sets" (VSet [])) /\ wf_name_set (kwget kw "dels" (VSet []))
    /\ wf_calls (kwget kw "calls" (VList [])).

  (* accepted exactly when well formed; anything else is the fatal diagnostic - there is no third outcome *)
  Theorem annotation_accepts_iff_wf pos kw :
    (exists d, annotation pos kw = AOk d) <-> wf_annotation pos kw.
  Proof.
    unfold Annot.annotation, wf_annotation. split.
    - intros (d & H).
      destruct (forallb evaluable pos) eqn:E1; simpl in H; [|discriminate].
      destruct (forallb (fun kv => evaluable (snd kv)) kw) eqn:E2; simpl in H; [|discriminate].
      destruct pos as [|p ps]; simpl in H; [|discriminate].
      destruct (forallb (fun kv => allowed_key (fst kv)) kw) eqn:E3; simpl in H; [|discriminate].
      destruct (is_set_of_names name_ok (kwget kw "gets" (VSet []))) eqn:G; simpl in H; [|discriminate].
      destruct (is_set_of_names name_ok (kwget kw "sets" (VSet []))) eqn:S; simpl in H; [|discriminate].
      destruct (is_set_of_names name_ok (kwget kw "dels" (VSet []))) eqn:D; simpl in H; [|discriminate].
      destruct (is_list_of_call_specs name_ok (kwget kw "calls" (VList []))) eqn:Cc; simpl in H; [|discriminate].
      repeat split; auto; try (apply set_of_names_iff; assumption). apply call_specs_iff. assumption.
    - intros (E1 & E2 & -> & E3 & G & S & D & Cc). rewrite E2, E3. simpl.
      apply set_of_names_iff in G, S, D. apply call_specs_iff in Cc. rewrite G, S, D, Cc. simpl. eexists. reflexivity.
  Qed.

  (* ... and then the entry is exactly the declared names *)
  Theorem annotation_declares_exactly kw d gl :
    annotation [] kw = AOk d -> kwget kw "gets" (VSet []) = VSet gl -> d_gets d = strs gl.
  Proof.
    unfold Annot.annotation. intros H Hg. rewrite Hg in H.
    destruct (negb _); [discriminate|]. simpl in H. destruct (negb _); [discriminate|].
    destruct (_ && _ && _ && _); [|discriminate]. injection H as <-. reflexivity.
  Qed.

  (* ---- entries ---- *)
  Lemma file_entries_names defs l :
    file_entries defs = FEntries l ->
    forall n src, In (n, src) l -> exists t, In t defs /\ td_name t = n /\ def_entry t = Some (Some (n, src)).
  Proof.
    revert l. induction defs as [|t r IH]; intros l H n src Hin; simpl in H.
    - injection H as <-. destruct Hin.
    - destruct (def_entry t) as [e|] eqn:Ee; [|discriminate].
      destruct (file_entries r) as [l'|] eqn:Er; [|discriminate]. injection H as <-.
      assert (Hname : forall x, e = Some x -> fst x = td_name t).
      { intros x ->. unfold Annot.def_entry in Ee. destruct (td_kind t) as [| | |cls]; destruct (td_ignore t); simpl in Ee; try discriminate;
          try (injection Ee as <-; reflexivity);
          try (destruct (excluded cls); [discriminate|injection Ee as <-; reflexivity]);
          destruct (excluded (td_name t)); try discriminate;
          destruct (td_results t) as [[p k]|]; try (injection Ee as <-; reflexivity);
          destruct (annotation p k); try discriminate; injection Ee as <-; reflexivity. }
      destruct e as [x|].
      + destruct Hin as [->|Hin].
        * exists t. split; [left; reflexivity|]. specialize (Hname _ eq_refl). simpl in Hname. split; [symmetry; exact Hname|exact Ee].
        * destruct (IH l' eq_refl n src Hin) as (t' & H1 & H2 & H3). exists t'. split; [right; exact H1|split; assumption].
      + destruct (IH l' eq_refl n src Hin) as (t' & H1 & H2 & H3). exists t'. split; [right; exact H1|split; assumption].
  Qed.

  (* a function or class that is rattr_ignore'd, or whose name matches an exclusion, has no entry *)
  Theorem ignored_or_excluded_has_no_entry defs l t src :
    file_entries defs = FEntries l ->
    (forall t', In t' defs -> td_name t' = td_name t -> t' = t) ->          (* names are unique *)
    In t defs -> (td_kind t = DFunc \/ td_kind t = DClass) ->
    (td_ignore t = true \/ excluded (td_name t) = true) ->
    ~ In (td_name t, src) l.
  Proof.
    intros H Huniq Hin Hk Hie Hl.
    destruct (file_entries_names defs l H _ _ Hl) as (t' & H1 & H2 & H3).
    rewrite (Huniq t' H1 H2) in H3. unfold Annot.def_entry in H3.
    destruct Hk as [Hk|Hk]; rewrite Hk in H3; destruct Hie as [Hi|He].
    - rewrite Hi in H3. discriminate.
    - destruct (td_ignore t); [discriminate|]. rewrite He in H3. discriminate.
    - rewrite Hi in H3. discriminate.
    - destruct (td_ignore t); [discriminate|]. rewrite He in H3. discriminate.
  Qed.

  (* a rattr_results function's entry is its declaration, whatever its body *)
  Theorem results_entry_is_declaration defs l t pos kw src :
    file_entries defs = FEntries l -> (forall t', In t' defs -> td_name t' = td_name t -> t' = t) -> In t defs ->
    (td_kind t = DFunc \/ td_kind t = DClass) -> td_results t = Some (pos, kw) ->
    In (td_name t, src) l -> exists d, annotation pos kw = AOk d /\ src = FromDecl d.
  Proof.
    intros H Huniq Hin Hk Hr Hl.
    destruct (file_entries_names defs l H _ _ Hl) as (t' & H1 & H2 & H3).
    rewrite (Huniq t' H1 H2) in H3. unfold Annot.def_entry in H3.
    destruct Hk as [Hk|Hk]; rewrite Hk, Hr in H3; destruct (td_ignore t); try discriminate;
      destruct (excluded (td_name t)); try discriminate;
      destruct (annotation pos kw) as [d|]; try discriminate; injection H3 as <-; exists d; split; reflexivity.
  Qed.

  (* a malformed declaration anywhere in the file is the fatal diagnostic *)
  Theorem malformed_declaration_is_fatal defs t pos kw :
    In t defs -> (td_kind t = DFunc \/ td_kind t = DClass) -> td_ignore t = false -> excluded (td_name t) = false ->
    td_results t = Some (pos, kw) -> ~ wf_annotation pos kw -> file_entries defs = FFatal.
  Proof.
    intros Hin Hk Hi He Hr Hn. induction defs as [|a r IH]; [destruct Hin|]. simpl.
    destruct Hin as [->|Hin].
    - assert (Hd : def_entry t = None).
      { unfold Annot.def_entry. destruct Hk as [Hk|Hk]; rewrite Hk, Hi, He, Hr;
          destruct (annotation pos kw) as [d|] eqn:Ea; try reflexivity; exfalso; apply Hn; apply annotation_accepts_iff_wf; exists d; exact Ea. }
      rewrite Hd. reflexivity.
    - rewrite (IH Hin). destruct (def_entry a); reflexivity.
  Qed.
End C11.

(* a definition without entry is invisible to result generation: no call resolves to it *)
Lemma no_entry_no_contribution excluded (E : env) c nm k :
  c_target c = Some (mkSym nm k) -> (forall e, In e E -> fe_id e <> nm) -> resolve excluded E c = None.
Proof.
  intros Ht Hno. unfold resolve. rewrite Ht.
  assert (Hf : forall kk, find_entry E nm kk = None).
  { intros kk. induction E as [|e r IH]; [reflexivity|]. simpl.
    destruct (String.eqb (fe_id e) nm) eqn:Ee.
    - apply String.eqb_eq in Ee. exfalso. apply (Hno e); [left; reflexivity|exact Ee].
    - simpl. apply IH. intros e' He'. apply Hno. right. exact He'. }
  destruct k; try reflexivity; [destruct (excluded nm); [reflexivity|apply Hf]|apply Hf].
Qed.

(* REFUTED for lambdas and static methods: an excluded name still gets an entry (finding KF_C11_1) *)
Definition secret (n : string) : bool := contains "secret" n.
Lemma excluded_lambda_still_has_entry :
  file_entries (fun _ => true) secret [mkDef "lam_secret" DLambda false None; mkDef "K.sm_secret" (DStatic "K") false None; mkDef "fn_secret" DFunc false None]
  = FEntries [("lam_secret", FromBody); ("K.sm_secret", FromBody)].
Proof. reflexivity. Qed.
