(* C09: the call record lists the positional arguments in source order and the keyword arguments by
   keyword, each spelled by the argument namer; the constructed-instance stand-in comes first. *)
From RattrV Require Import Base BaseFacts Str PyAst Naming Spell Context FuncAn Occurs CallSpec FaCheck FaSpecCheck FaFacts FaMono C01Proofs.
Open Scope string_scope.
Open Scope list_scope.

Definition arg_full (a : node) : option string :=
  match old_names true a with NOk _ f => Some f | _ => None end.

Lemma arg_names_spec args : forall s l s',
  arg_names args s = (Ok l, s') ->
  s' = s /\ List.length l = List.length args /\
  forall i a, nth_error args i = Some a -> option_map Some (nth_error l i) = Some (arg_full a).
Proof.
  induction args as [|a args IH]; intros s l s' H; simpl in H.
  - injection H as <- <-. repeat split; auto. intros i a Hn. destruct i; discriminate.
  - unfold bind in H. unfold arg_full.
    destruct (old_names true a) as [b f| |c] eqn:E; simpl in H; try discriminate.
    destruct (arg_names args s) as [[rest| | |] s1] eqn:Er; simpl in H; try discriminate.
    injection H as <- <-. destruct (IH _ _ _ Er) as (Hs & Hlen & Hnth). subst s1.
    repeat split; auto.
    + simpl. congruence.
    + intros i a0 Hn. destruct i; simpl in *.
      * injection Hn as <-. rewrite E. reflexivity.
      * apply (Hnth i a0 Hn).
Qed.

(* the record built for a call: name, self stand-in first, then the arguments in order *)
Lemma make_call_spec fullname args kws target self s cr s' :
  make_call fullname args kws target self s = (Ok cr, s') ->
  s' = s /\ c_name cr = without_call_brackets fullname /\ c_target cr = target /\
  exists l, c_args cr = opt_list self ++ l /\ List.length l = List.length args /\
            forall i a, nth_error args i = Some a -> option_map Some (nth_error l i) = Some (arg_full a).
Proof.
  unfold make_call, bind. intros H.
  destruct (arg_names args s) as [[l| | |] s1] eqn:Ea; simpl in H; try discriminate.
  destruct (arg_names_spec _ _ _ _ Ea) as (Hs & Hlen & Hnth). subst s1.
  pose proof (reader_kwarg_names kws [] s) as Hk.
  destruct (kwarg_names kws [] s) as [[d| | |] s2] eqn:Ek; simpl in H, Hk; try discriminate.
  injection H as <- <-. subst s2. repeat split; auto. exists l. auto.
Qed.

(* the three constructor contexts and a plain call, by computation on the model *)
Definition cls_ctx : ctx := [[mkSym "C" KClass; mkSym "f" KFunc]].
Definition runc (body : list node) : outcome unit * vstate :=
  analyse (fun _ => false) (Some "m") (fn_of body) (init_state cls_ctx).
Definition cC : node := ECall (nm "C") [at_ (nm "x") "u"; Other "BinOp" [] [nm "a"; nm "b"]] [EKw (Some "k") (at_ (nm "y") "w")] P0.
Definition call_args_of (body : list node) : list (string * list string * dict) :=
  map (fun c => (c_name c, c_args c, c_kw c)) (v_calls (snd (runc body))).

Lemma standin_examples :
  call_args_of [SAssign [EName "t" Store P0] cC P0] = [("C", ["t"; "x.u"; "@BinOp"], [("k", "y.w")])] /\
  call_args_of [SReturn [cC] P0] = [("C", ["@ReturnValue"; "x.u"; "@BinOp"], [("k", "y.w")])] /\
  call_args_of [SReturn [ESeq KList [cC; nm "x"] P0] P0] = [("C", ["@ReturnValue"; "x.u"; "@BinOp"], [("k", "y.w")])] /\
  call_args_of [Other "Expr" [] [cC]] = [("C", ["@C"; "x.u"; "@BinOp"], [("k", "y.w")])] /\
  call_args_of [Other "Expr" [] [ECall (nm "f") [nm "x"; at_ (nm "y") "w"] [] P0]] = [("f", ["x"; "y.w"], [])].
Proof. vm_compute. repeat split; reflexivity. Qed.

Lemma standin_examples_mirror :
  unmirrored (fn_of [SAssign [EName "t" Store P0] cC P0]) (v_calls (snd (runc [SAssign [EName "t" Store P0] cC P0]))) = [] /\
  unmirrored (fn_of [SReturn [ESeq KList [cC; nm "x"] P0] P0]) (v_calls (snd (runc [SReturn [ESeq KList [cC; nm "x"] P0] P0]))) = [].
Proof. vm_compute. auto. Qed.
