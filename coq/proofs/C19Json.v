(* C19, the document layer: what rattr writes structures back to itself; what is not JSON or not an
   object is never a hit. *)
From RattrV Require Import Base BaseFacts Str Json Cache CacheJson.
Open Scope string_scope.
Open Scope list_scope.

Definition wf_results (r : option json) : Prop :=
  exists kvs, r = Some (JObj kvs) /\ forallb (fun kv => results_entry_ok (snd kv)) kvs = true.

Lemma de_imports_list_ser l :
  Forall (fun ph : string * string => fst ph <> "") l ->
  de_imports_list (map (fun ph => JObj [("filepath", JStr (fst ph)); ("filehash", JStr (snd ph))]) l) = Some l.
Proof.
  induction 1 as [|[p h] l Hp _ IH]; [reflexivity|].
  cbn [map de_imports_list de_import jget fst snd String.eqb Ascii.eqb Bool.eqb de_path de_strish].
  rewrite IH. destruct (String.eqb p "") eqn:E; [apply String.eqb_eq in E; contradiction|reflexivity].
Qed.

(* the document a run writes reads back as exactly that document *)
Theorem read_back c :
  c_filepath c <> "" -> Forall (fun ph : string * string => fst ph <> "") (c_imports c) -> wf_results (c_results c) ->
  de_cache (ser_cache c) = CDoc c.
Proof.
  intros Hfp Himps (kvs & Hr & Hok). destruct c as [v a p fp fh imps r]. cbn [c_filepath c_imports c_results] in *. subst r.
  unfold ser_cache, de_cache.
  cbn [jget String.eqb Ascii.eqb Bool.eqb c_version c_args_hash c_plugins_hash c_filepath c_filehash c_imports c_results de_path de_strish de_imports de_results].
  rewrite (de_imports_list_ser imps Himps), Hok.
  destruct (String.eqb fp "") eqn:E; [apply String.eqb_eq in E; contradiction|reflexivity].
Qed.

(* bytes that are not JSON, a missing file, and JSON that is not an object are never a cache document *)
Theorem not_a_document_is_never_trusted d :
  match d with DAbsent | DNotJson => True | DJson (JObj _) => False | DJson _ => True end ->
  match read_cache d with CDoc _ => False | _ => True end.
Proof. destruct d as [| |[]]; simpl; auto; contradiction. Qed.

(* a wrongly typed path, imports or results field makes the document malformed *)
Theorem wrong_type_is_malformed kvs :
  (exists j, jget kvs "filepath" = Some j /\ match j with JStr _ => False | _ => True end)
  \/ (exists j, jget kvs "imports" = Some j /\ match j with JArr _ | JObj _ | JStr _ => False | _ => True end)
  \/ (exists j, jget kvs "results" = Some j /\ match j with JObj _ => False | _ => True end) ->
  de_cache (JObj kvs) = CMalformed.
Proof.
  intros [(j & E & H)|[(j & E & H)|(j & E & H)]]; unfold de_cache; rewrite E.
  - destruct j; try contradiction; reflexivity.
  - destruct (de_path (jget kvs "filepath")); [|reflexivity].
    destruct j; try contradiction; reflexivity.
  - destruct (de_path (jget kvs "filepath")); [|reflexivity].
    destruct (de_imports (jget kvs "imports")); [|reflexivity].
    destruct j; try contradiction; reflexivity.
Qed.

(* REFUTED (finding KF_C19_2): dropping the imports key leaves a document that structures - to the same
   document with no imports to check *)
Lemma dropped_imports_still_structure :
  exists kvs c, jget kvs "imports" = None /\ de_cache (JObj kvs) = CDoc c /\ c_imports c = [].
Proof.
  exists [("version", JStr "V"); ("filepath", JStr "t.py"); ("results", JObj [])]. eexists. repeat split.
Qed.
