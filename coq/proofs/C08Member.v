(* C08: a dotted call m.f() where m is an imported module gets the import m.f as target (and is then
   followed by resolve_import); where m is anything else it gets nothing. *)
From RattrV Require Import Base BaseFacts Str Context.
Open Scope string_scope.
Open Scope list_scope.

Lemma join_dot_two m f : join_dot [m; f] = (m ++ "." ++ f)%string.
Proof. unfold join_dot. simpl. reflexivity. Qed.
Lemma join_dot_one m : join_dot [m] = m.
Proof. unfold join_dot. simpl. reflexivity. Qed.

Section Member.
  Variable mexists : string -> bool.

  Theorem module_member_call_targets_the_import c m f q :
    let name := (m ++ "." ++ f)%string in
    replace_all "*" "" (without_call_brackets name) = name -> split_dot name = [m; f] ->
    starts_with "@" name = false -> contains "[]" name = false -> contains "." name = true ->
    replace_all (m ++ ".") "" name = f ->
    ctx_get c name = None -> ctx_get c m = Some (mkSym m (KImport q)) -> mexists q = true ->
    get_call_target mexists c name = Some (mkSym f (KImport (q ++ "." ++ f))).
  Proof.
    intros name Hn Hs Ha Hb Hd Hr Hg Hm He. unfold get_call_target. fold name.
    rewrite Hn, Hs, Ha, Hb, Hg, Hm, Hd. simpl.
    unfold target_in_imported_module. rewrite Hs. unfold names_right, names_right_l. simpl.
    rewrite join_dot_two, join_dot_one. fold name. rewrite Hg, Hm. simpl. rewrite He, Hr, Bool.andb_false_r. reflexivity.
  Qed.

  (* ... and when the module does not exist as a module (m is a from-imported class, function, constant) the
     member call has no target *)
  Theorem member_of_non_module_import_has_no_target c m f q :
    let name := (m ++ "." ++ f)%string in
    replace_all "*" "" (without_call_brackets name) = name -> split_dot name = [m; f] ->
    starts_with "@" name = false -> contains "[]" name = false -> contains "." name = true ->
    ctx_get c name = None -> ctx_get c m = Some (mkSym m (KImport q)) -> mexists q = false ->
    get_call_target mexists c name = None.
  Proof.
    intros name Hn Hs Ha Hb Hd Hg Hm He. unfold get_call_target. fold name.
    rewrite Hn, Hs, Ha, Hb, Hg, Hm, Hd. simpl.
    unfold target_in_imported_module. rewrite Hs. unfold names_right, names_right_l. simpl.
    rewrite join_dot_two, join_dot_one. fold name. rewrite Hg, Hm. simpl. rewrite He, Bool.andb_false_r. reflexivity.
  Qed.
End Member.

(* the premises are satisfiable: mod_imp.mfunc *)
Example member_example :
  get_call_target (fun q => String.eqb q "mod_imp") [[]; [mkSym "mod_imp" (KImport "mod_imp")]] "mod_imp.mfunc"
  = Some (mkSym "mfunc" (KImport "mod_imp.mfunc")).
Proof. reflexivity. Qed.
