(* C02: leaf exactness - what a Name visit adds, and under which kind. *)
From RattrV Require Import Base BaseFacts Str PyAst Naming Spell Context FuncAn Occurs FaCheck FaSpecCheck FaFacts FaMono C01Proofs.
Open Scope string_scope.
Open Scope list_scope.

Lemma gav_name id c p s :
  exists w, get_and_verify_name (EName id c p) c s
            = (Ok (id, id), mkV (v_gets s) (v_sets s) (v_dels s) (v_calls s) (v_ctx s) (v_warn s ++ w)).
Proof.
  unfold get_and_verify_name.
  remember (fun bf : string * string => negb (ctx_in (v_ctx s) (fst bf)) && negb (ctx_eqb c Store)
                                          && negb (starts_with LITERAL_PREFIX (fst bf))) as cond.
  assert (E : names_of true true (EName id c p) = NOk id id) by reflexivity. rewrite E.
  unfold lift_names, bind, ret, get_ctx. cbn [fst snd].
  destruct (negb (ctx_in (v_ctx s) id) && negb (ctx_eqb c Store) && negb (starts_with LITERAL_PREFIX id)).
  - exists [(id, p)]. reflexivity.
  - exists []. rewrite app_nil_r. destruct s; reflexivity.
Qed.

(* visiting a variable adds exactly that variable, under the kind of its expression context, and
   touches no other part of the IR *)
Lemma visit_name_exact mexists modulename id c p s :
  let s' := snd (visit mexists modulename (EName id c p) s) in
  fst (visit mexists modulename (EName id c p) s) = Ok tt /\
  v_calls s' = v_calls s /\ v_ctx s' = v_ctx s /\
  match c with
  | Load => v_gets s' = radd (id, id) (v_gets s) /\ v_sets s' = v_sets s /\ v_dels s' = v_dels s
  | Store => v_sets s' = radd (id, id) (v_sets s) /\ v_gets s' = v_gets s /\ v_dels s' = v_dels s
  | Del => v_dels s' = radd (id, id) (v_dels s) /\ v_gets s' = v_gets s /\ v_sets s' = v_sets s
  end.
Proof.
  rewrite visit_name. destruct (gav_name id c p s) as (w & Hg).
  unfold bind. rewrite Hg. cbn [fst snd]. destruct c; cbn; repeat split; reflexivity.
Qed.

(* on the sample body nothing is reported that the body does not do *)
Definition phantoms_of (body : list node) : list occ :=
  let s := snd (run body) in
  let allowed := flat_map (occs true) body ++ flat_map (fold_nodes derived_of) body in
  filter (fun x => negb (occ_mem x allowed))
         (map (fun r => (AGet, fst r)) (v_gets s) ++ map (fun r => (ASet, fst r)) (v_sets s)
          ++ map (fun r => (ADel, fst r)) (v_dels s) ++ map (fun c => (ACall, c_name c)) (v_calls s)).

Lemma sample_no_phantoms : phantoms_of sample_body = [] /\ phantoms_of w2 = [] /\ phantoms_of w3 = [].
Proof. vm_compute. auto. Qed.

(* the receiver-prefix derivation: a.b.c.m() adds gets a.b and a.b.c, with base a *)
Lemma receiver_prefix_example :
  receiver_prefixes "a.b.c.m()" = [("a.b", "a"); ("a.b.c", "a")] /\ receiver_prefixes "f()" = [] /\ receiver_prefixes "a.m()" = [].
Proof. vm_compute. auto. Qed.
