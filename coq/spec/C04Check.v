(* Per-case judgement evaluated by the C04 correspondence run (harness/props/c04.py).
   bit 0: the model disagrees with what rattr returned     (correspondence)
   bit 1: rattr's output violates the specification         (property judgement on the implementation)
   bit 2/3: the input lies in finding class KF_C04_1 / KF_C04_2
   bit 4: the specification disagrees with the external oracle (inspect.Signature.bind_partial) *)
From RattrV Require Import Base CallSwaps PyBind.
Open Scope string_scope.
Open Scope list_scope.

Definition opt_dict_equivb (a b : option dict) : bool :=
  match a, b with
  | Some x, Some y => dict_equivb x y
  | None, None => true
  | _, _ => false
  end.

Definition c04_code (x : iface * callargs * (dict * list diag) * option dict) : nat :=
  let '(sg, c, out, oracle) := x in
  (if swaps_result_eqb (construct_call_swaps sg c) out then 0 else 1)
  + (if check_C04 sg c out then 0 else 2)
  + (if KF_C04_1 sg c then 4 else 0)
  + (if KF_C04_2 sg c then 8 else 0)
  + (if opt_dict_equivb (py_bind sg c) oracle && wf_iface sg && wf_call c then 0 else 16).
