(* Specification for C04: how Python itself binds call-site arguments to parameters
   (CPython's argument binding, PEP 570/3102), restricted to what an interface without
   default values can decide: every parameter is treated as optional.  Written from the
   language reference, not from rattr's code; validated by the harness against
   inspect.Signature.bind_partial on the whole enumerated domain. *)
From RattrV Require Export Base CallSwaps.
Open Scope string_scope.
Open Scope list_scope.

(* positional phase: the positional arguments fill posonly ++ args from the left *)
Fixpoint bind_pos (ps : list string) (as_ : list string) (m : dict) : dict * list string :=
  match ps, as_ with
  | p :: ps', a :: as' => bind_pos ps' as' (dset m p a)
  | _, _ => (m, as_)                       (* leftover positional arguments *)
  end.

(* keyword phase.  A keyword names a parameter only if that parameter is positional-or-keyword
   or keyword-only; any other keyword (unknown name, positional-only name, the name of the
   *args or **kwargs parameter) lands in **kwargs if there is one and is an error otherwise.
   A keyword for a parameter already bound positionally is an error. *)
Fixpoint bind_kw (I : iface) (kws : dict) (m : dict) : option dict :=
  match kws with
  | [] => Some m
  | (k, v) :: r =>
    if mem k (args I) || mem k (kwonly I) then
      if dmem k m then None else bind_kw I r (dset m k v)
    else match kwarg I with
         | Some kw => bind_kw I r (dset m kw KWARGS_NAME)
         | None => None
         end
  end.

(* None = Python raises TypeError for arity reasons;
   Some m = the call is accepted and m maps every parameter that received an explicit
   argument to it, *args to "@Tuple" (whenever the parameter exists: it always receives a
   tuple) and **kwargs to "@Dict" when at least one keyword was collected by it. *)
Definition py_bind (I : iface) (c : callargs) : option dict :=
  let '(m0, leftover) := bind_pos (posonly I ++ args I) (cargs c) [] in
  match vararg I, leftover with
  | None, _ :: _ => None
  | None, [] => bind_kw I (ckw c) m0
  | Some v, _ => bind_kw I (ckw c) (dset m0 v VARARG_NAME)
  end.

(* well-formedness Python's compiler enforces: parameter names pairwise distinct,
   keyword names pairwise distinct *)
Definition wf_iface (I : iface) : bool := nodupb (iface_all I).
Definition wf_call (c : callargs) : bool := nodupb (dkeys (ckw c)).

(* The property, as a decidable judgement on an observed (swaps, diagnostics) pair. *)
(* order-insensitive equality of two dicts (keys are unique in both) *)
Definition dict_subb (a b : dict) : bool :=
  forallb (fun kv => match dget b (fst kv) with Some v => String.eqb v (snd kv) | None => false end) a.
Definition dict_equivb (a b : dict) : bool := dict_subb a b && dict_subb b a.

Definition check_C04 (I : iface) (c : callargs) (out : dict * list diag) : bool :=
  match py_bind I c with
  | Some m => dict_equivb (fst out) m && is_nil (snd out)
  | None => negb (is_nil (snd out))
  end.

(* Finding classes (inputs on which the unchanged code is known to deviate) *)
(* KF_C04_1: fewer positional arguments than positional-only parameters: rattr reports an arity
   error although the parameters may have defaults (the interface stores none). *)
Definition KF_C04_1 (I : iface) (c : callargs) : bool :=
  Nat.ltb (List.length (cargs c)) (List.length (posonly I)).
(* KF_C04_2: the callee has **kwargs and some keyword is spelled like a parameter that cannot be
   passed by keyword (positional-only, the *args name or the **kwargs name): Python collects it in
   **kwargs, rattr reports "by position and name". *)
Definition KF_C04_2 (I : iface) (c : callargs) : bool :=
  match kwarg I with
  | None => false
  | Some kw =>
    existsb (fun k => mem k (posonly I) || mem k (opt_list (vararg I)) || String.eqb k kw)
            (dkeys (ckw c))
  end.
