(* Specification for C13, from the language reference / importlib, not from rattr's code.
   py_resolve transcribes importlib._bootstrap._resolve_name:
       bits = package.rsplit('.', level - 1)
       if len(bits) < level: raise ImportError('attempted relative import beyond top-level package')
       base = bits[0]; return f'{base}.{name}' if name else base
   on dotted names as component lists; `package` is a module's __package__: the module itself for
   a package __init__, its parent otherwise.  Validated against importlib.util.resolve_name by the
   harness on every generated triple. *)
From RattrV Require Export Base ModNames.
Open Scope string_scope.
Open Scope list_scope.

Definition package_of (modname : list string) (is_init : bool) : list string :=
  if is_init then modname else drop_last 1 modname.

Definition py_resolve (package : list string) (level : nat) (name : option (list string)) : option (list string) :=
  if Nat.ltb (List.length package) level then None
  else Some (firstn (List.length package - (level - 1)) package ++ match name with Some n => n | None => [] end).

(* componentwise prefix *)
Fixpoint is_prefix (p l : list string) : bool :=
  match p, l with
  | [], _ => true
  | x :: p', y :: l' => String.eqb x y && is_prefix p' l'
  | _ :: _, [] => false
  end.

(* judgement on an observed answer of find_module_name_and_spec: the longest existing prefix *)
Definition check_longest_prefix (exists_mod : string -> bool) (q : list string) (ans : option (list string)) : bool :=
  match ans with
  | Some m =>
    is_prefix m q && negb (is_nil m) && exists_mod (join_dot m)
    && forallb (fun k => negb (exists_mod (join_dot (firstn k q))) || Nat.leb k (List.length m))
               (seq 1 (List.length q))
  | None => forallb (fun k => negb (exists_mod (join_dot (firstn k q)))) (seq 1 (List.length q))
  end.
