(* C08 specification: which callee Python's scoping rules pick for a call site, as far as the property
   states it, and the per-site judgement of rattr's answer. *)
From RattrV Require Import Base Str Context.
Open Scope string_scope.
Open Scope list_scope.

Inductive rkind := RFunc | RLambda | RClass | RStatic | RModuleImport | RFromImport | RBuiltin | RVariable.

Record site := mkSite {
  st_root : list (string * rkind);       (* module-level names of the target file; static methods as "C.s" *)
  st_module_members : list string;       (* "m.f" for every function f defined in an imported local module m *)
  st_dotted_heads : list string;         (* p for every un-aliased `import p.x`: Python binds p to the package *)
  st_params : list string;               (* parameters of the calling function and of every enclosing lambda / nested def *)
  st_callee : string;                    (* the callee expression, dotted spelling *)
  st_special : bool;                     (* the callee is a call result, a subscript item, a literal *)
  st_callee_access : string;             (* the distinctive access the named callee contributes when inlined with the
                                            arguments of this site ("" when the spelling names no analysed callable) *)
  st_may : list string;                  (* distinctive accesses of inner calls (g(a) in g(a).m(a)): allowed, not demanded *)
  st_observed : list string }.           (* OBSERVED: every distinctive access in the caller's results *)

Fixpoint rlookup (t : list (string * rkind)) (n : string) : option rkind :=
  match t with [] => None | (k, v) :: r => if String.eqb k n then Some v else rlookup r n end.

Definition callable_kind (k : rkind) : bool :=
  match k with RFunc | RLambda | RClass | RFromImport => true | _ => false end.

(* what the property says should be inlined *)
Definition expected_inline (s : site) : bool :=
  if st_special s then false
  else match split_dot (st_callee s) with
       | [n] => negb (mem n (st_params s))
                && match rlookup (st_root s) n with Some k => callable_kind k | None => false end
       | [m; f] =>
         negb (mem m (st_params s))
         && match rlookup (st_root s) m with
            | Some RModuleImport => mem (st_callee s) (st_module_members s)
            | Some RClass => match rlookup (st_root s) (st_callee s) with Some RStatic => true | _ => false end
            | _ => false
            end
       | [m; c; f] =>
         (* m.C.s(): the static method s of class C of the imported module m; m.obj.f() - a method on an attribute
            of the module - is never inlined, whatever m defines under the name f *)
         negb (mem m (st_params s))
         && match rlookup (st_root s) m with
            | Some RModuleImport => mem (st_callee s) (st_module_members s)
            | _ => false
            end
       | _ => false
       end.

(* `import p.x` (no alias) binds p: Python would pick p's own member for p.f() and x's member for p.x.f().  The
   property only says such a call is inlined from THAT module and no other ("only when m is an imported module");
   that rattr does not follow these calls at all is listed under C06.  So: the named callee's access may be there,
   nothing else may. *)
Definition optional_inline (s : site) : bool :=
  negb (st_special s)
  && match split_dot (st_callee s) with
     | m :: _ :: _ => mem m (st_dotted_heads s) && negb (mem m (st_params s)) && mem (st_callee s) (st_module_members s)
     | _ => false
     end.

Definition allowed (s : site) : list string :=
  (if (expected_inline s || optional_inline s) && negb (String.eqb (st_callee_access s) "") then [st_callee_access s] else [])
  ++ st_may s.

(* rattr's answer agrees with the property: nothing but the allowed accesses was inlined, and the demanded one was *)
Definition site_ok (s : site) : bool :=
  forallb (fun a => mem a (allowed s)) (st_observed s)
  && (if expected_inline s then mem (st_callee_access s) (st_observed s) else true).

(* finding class KF_C08_1 (what is left of it after fix 1134bd3): the callee is C.s for a static method s of a
   module-level class C while C is a parameter - static methods are registered under the dotted name "C.s", which
   the parameter C does not shadow *)
Definition shadowed_by_parameter (s : site) : bool :=
  match split_dot (st_callee s) with
  | [c; _] => mem c (st_params s) && match rlookup (st_root s) (st_callee s) with Some RStatic => true | _ => false end
  | _ => false
  end.

(* finding class KF_C08_2: the callee is the result of a call to a module-level callable - f(x)(y) *)
Definition call_on_call_result (s : site) : bool :=
  st_special s && ends_with "()" (st_callee s)
  && match rlookup (st_root s) (without_call_brackets (st_callee s)) with Some k => callable_kind k | None => false end.

(* value 2 (bit 0 is left for the correspondence): rattr's decision differs from the property's;
   value 4: the site is in finding class KF_C08_1; value 8: in KF_C08_2 *)
Definition site_code (s : site) : nat :=
  (if site_ok s then 0 else 2) + (if shadowed_by_parameter s then 4 else 0) + (if call_on_call_result s then 8 else 0).
