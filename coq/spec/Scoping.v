(* C08 specification: which callee Python's scoping rules pick for a call site, as far as the property
   states it, and the per-site judgement of rattr's answer. *)
From RattrV Require Import Base Str Context.
Open Scope string_scope.
Open Scope list_scope.

Inductive rkind := RFunc | RLambda | RClass | RStatic | RModuleImport | RFromImport | RBuiltin | RVariable.

Record site := mkSite {
  st_root : list (string * rkind);       (* module-level names of the target file; static methods as "C.s" *)
  st_module_members : list string;       (* "m.f" for every function f defined in an imported local module m *)
  st_params : list string;               (* parameters of the calling function and of every enclosing lambda / nested def *)
  st_callee : string;                    (* the callee expression, dotted spelling *)
  st_special : bool;                     (* the callee is a call result, a subscript item, a literal *)
  st_inlined : bool }.                   (* OBSERVED: the callee's distinctive accesses are in the caller's results *)

Fixpoint rlookup (t : list (string * rkind)) (n : string) : option rkind :=
  match t with [] => None | (k, v) :: r => if String.eqb k n then Some v else rlookup r n end.

Definition callable_kind (k : rkind) : bool :=
  match k with RFunc | RLambda | RClass | RFromImport => true | _ => false end.

(* what the property says should be inlined *)
Definition expected_inline (s : site) : bool :=
  if st_special s then false
  else match split_dot (st_callee s) with
       | [n] => negb (mem n (st_params s))
                && match rlookup (st_root s) n with Some k => callable_kind k | None => false end
       | [m; f] =>
         negb (mem m (st_params s))
         && match rlookup (st_root s) m with
            | Some RModuleImport => mem (st_callee s) (st_module_members s)
            | Some RClass => match rlookup (st_root s) (st_callee s) with Some RStatic => true | _ => false end
            | _ => false
            end
       | [m; c; f] =>
         (* m.C.s(): the static method s of class C of the imported module m; m.obj.f() - a method on an attribute
            of the module - is never inlined, whatever m defines under the name f *)
         negb (mem m (st_params s))
         && match rlookup (st_root s) m with
            | Some RModuleImport => mem (st_callee s) (st_module_members s)
            | _ => false
            end
       | _ => false
       end.

(* finding class KF_C08_1: the base of the callee is a parameter that is spelled like a module-level name *)
Definition shadowed_by_parameter (s : site) : bool :=
  match split_dot (st_callee s) with
  | n :: _ => mem n (st_params s) && match rlookup (st_root s) n with Some _ => true | None => false end
  | [] => false
  end.

(* bit 0 (value 2 to leave bit 0 for the correspondence): rattr's decision differs from the property's;
   bit value 4: the site is in the finding class *)
Definition site_code (s : site) : nat :=
  (if Bool.eqb (expected_inline s) (st_inlined s) then 0 else 2) + (if shadowed_by_parameter s then 4 else 0).
