(* Per-case judgement evaluated by the C15 / C16 correspondence runs: bit 0 = the generated model
   disagrees with what rattr did (exit status, buckets, printed levels); bit 1 = what rattr did
   violates the specification (check_C15, spec/ExitSpec.v). *)
From RattrV Require Import DiagRun ExitSpec.
Open Scope Z_scope.

Definition model_matches (c : diag_case) : bool :=
  let '(a, evA, evS, o) := c in
  let r := run a evA evS in
  (exit_status r =? o_exit o) && (w_target (snd r) =? o_target o) && (w_imports (snd r) =? o_imports o)
  && (w_simpl (snd r) =? o_simpl o) && levels_eqb (w_log (snd r)) (o_log o).

Definition diag_code (c : diag_case) : nat :=
  ((if model_matches c then 0 else 1) + (if check_C15 c then 0 else 2))%nat.
Definition spec_only_code (c : diag_case) : nat := if check_C15 c then 0%nat else 2%nat.
