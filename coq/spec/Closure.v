(* Specification for C03: a function's results are the closure of own accesses over the resolvable
   call graph under argument substitution.

   Substitution as the property states it: each parameter that receives an explicit argument is
   rewritten to that argument expression (binding by Python's rules, spec/PyBind.v), *args / **kwargs
   to "@Tuple" / "@Dict"; the base of the rewritten name is the root variable of the argument; names
   whose base is not a bound parameter pass unchanged.

     lower f = names derivable along call paths that repeat no call record   (must be reported)
     upper f = names derivable along any call path of length <= L             (only these may be)  *)
From RattrV Require Export Base Str Context CallSwaps PyBind FuncAn Results.
Open Scope string_scope.
Open Scope list_scope.

(* root variable of an argument spelling: "t.outer" -> "t", "*p[0].x" -> "p", "f().y" -> "f" *)
Definition root_base (a : string) : string :=
  replace_all "()" "" (replace_all "[]" "" (replace_all "*" ""
    (match split_dot a with x :: _ => x | [] => a end))).

Definition subst (m : dict) (x : rname) : rname :=
  let '(name, base) := x in
  match dget m base with
  | None => x
  | Some a =>
    let starred := starts_with "*" name in
    let body := if starred then sdrop 1 name else name in
    if starts_with base body
    then ((if starred then "*" else "") ++ a ++ sdrop (String.length base) body, root_base a)%string
    else x
  end.

Definition ir3_map (f : rname -> rname) (v : ir3) : ir3 :=
  let '(g, s, d) := v in (map f g, map f s, map f d).
Definition ir3_union (a b : ir3) : ir3 :=
  let '(g1, s1, d1) := a in let '(g2, s2, d2) := b in (union g1 g2, union s1 s2, union d1 d2).

Section Closure.
  Variable excluded : string -> bool.
  Variable E : env.
  Variable own : store.                 (* each function's own accesses *)

  (* Python's binding of the call's arguments to the callee's parameters; None = Python rejects the call *)
  Definition binding (g : fentry) (c : callrec) : option dict :=
    py_bind (fe_iface g) (mkCall (c_args c) (c_kw c)).

  (* ---- upper bound: L rounds of the closure step, for all functions at once ---- *)
  Definition step_fn (S : store) (f : fentry) : ir3 :=
    fold_left (fun acc c =>
                 match resolve excluded E c with
                 | None => acc
                 | Some g =>
                   match binding g c with
                   | Some m => ir3_union acc (ir3_map (subst m) (get_ir S (fe_id g)))
                   | None => ir3_union acc (get_ir S (fe_id g))     (* an arity-rejected call: no claim about the binding *)
                   end
                 end)
              (fe_calls f) (get_ir own (fe_id f)).
  Fixpoint upper_rounds (L : nat) (S : store) : store :=
    match L with
    | 0 => S
    | S l => upper_rounds l (map (fun f => (fe_id f, step_fn S f)) E)
    end.
  Definition upper (L : nat) : store := upper_rounds L own.

  (* ---- lower bound: derivations along paths that repeat no call record ---- *)
  Fixpoint lower_from (fuel : nat) (f : fentry) (visited : list callrec) : ir3 :=
    match fuel with
    | 0 => get_ir own (fe_id f)
    | S n =>
      fold_left (fun acc c =>
                   if cmem c visited then acc
                   else match resolve excluded E c with
                        | None => acc
                        | Some g =>
                          match binding g c with
                          | Some m => ir3_union acc (ir3_map (subst m) (lower_from n g (c :: visited)))
                          | None => acc
                          end
                        end)
                (fe_calls f) (get_ir own (fe_id f))
    end.
  Definition lower (f : fentry) : ir3 := lower_from (total_calls E) f [].
End Closure.

(* ---- finding classes ---- *)
Definition compound_arg (a : string) : bool :=
  contains "." a || contains "[]" a || contains "()" a || starts_with "*" a.

(* KF_C03_1: some resolvable call in the file binds a compound argument (attribute chain, subscript,
   call result, starred) - its base is recorded as the whole argument text, so the next level's
   substitution misses it *)
Definition KF_C03_1 (excluded : string -> bool) (E : env) : bool :=
  existsb (fun f => existsb (fun c => match resolve excluded E c with
                                      | Some _ => existsb compound_arg (c_args c) || existsb (fun kv => compound_arg (snd kv)) (c_kw c)
                                      | None => false
                                      end) (fe_calls f)) E.

(* KF_C03_2: some call record is made by two different functions of the file (or twice on a cycle):
   the per-root `seen` set expands it once; together with the shared, mutated IR sets the result then
   depends on definition order *)
Definition all_resolvable_calls (excluded : string -> bool) (E : env) : list callrec :=
  flat_map (fun f => filter (fun c => match resolve excluded E c with Some _ => true | None => false end) (fe_calls f)) E.
Fixpoint has_dup (l : list callrec) : bool :=
  match l with [] => false | c :: r => cmem c r || has_dup r end.
Definition reaches_self (excluded : string -> bool) (E : env) : bool :=
  (* a function that can reach itself: recursion *)
  existsb (fun f =>
             let fix reach (fuel : nat) (cur : list string) : list string :=
                 match fuel with
                 | 0 => cur
                 | S n => reach n (cur ++ flat_map (fun id => match find_entry E id KFunc, find_entry E id KClass with
                                                               | Some e, _ | None, Some e =>
                                                                 flat_map (fun c => match resolve excluded E c with Some g => [fe_id g] | None => [] end) (fe_calls e)
                                                               | None, None => []
                                                               end) cur)
                 end in
             mem (fe_id f) (reach (List.length E) (flat_map (fun c => match resolve excluded E c with Some g => [fe_id g] | None => [] end) (fe_calls f)))) E.
Definition KF_C03_2 (excluded : string -> bool) (E : env) : bool :=
  has_dup (all_resolvable_calls excluded E) || reaches_self excluded E.
