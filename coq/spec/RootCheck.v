(* Per-module judgement of the root-context model against rattr's compile_root_context. *)
From RattrV Require Import Base Str ModNames Context RootCtx.
Open Scope string_scope.
Open Scope list_scope.

Record root_ctx_case := mkRootCtxCase {
  rk_init : scope;                       (* the root context of an empty module: dunder names and builtins *)
  rk_locatable : list string;            (* qualified names whose import symbol has an origin *)
  rk_black : list string;                (* module names in the import blacklist *)
  rk_base : string;
  rk_is_init : bool;
  rk_stmts : list tstmt;
  rk_fatal : bool;                       (* OBSERVED: compile_root_context ended in rattr's fatal diagnostic *)
  rk_removed : list string;              (* OBSERVED table = (rk_init without these names) ++ rk_tail *)
  rk_tail : scope }.

Definition scope_eqb (a b : scope) : bool :=
  Nat.eqb (List.length a) (List.length b) && forallb (fun p => sym_eqb (fst p) (snd p)) (combine a b).

Definition model_root (k : root_ctx_case) : routcome :=
  regs (fun q => mem q (rk_locatable k)) (fun m => mem m (rk_black k)) (rk_base k) (rk_is_init k) (rk_stmts k) (rk_init k).

(* 1: the model's root context differs from rattr's *)
Definition rootctx_code (k : root_ctx_case) : nat :=
  match model_root k with
  | RFatal => if rk_fatal k then 0 else 1
  | ROk sc =>
    if rk_fatal k then 1
    else if scope_eqb sc (filter (fun s => negb (mem (s_name s) (rk_removed k))) (rk_init k) ++ rk_tail k) then 0 else 1
  end.
