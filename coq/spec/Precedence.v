(* Specification for C20, from the README / --help text: for every option settable in both places the
   effective value is the command-line value if given, else the [tool.rattr] value, else the default;
   list-valued options accumulate from both sources (TOML first); TOML values of the wrong type or
   outside the allowed choices are rejected; unknown TOML keys are ignored; two options of one
   mutually-exclusive group given by the same source are rejected. *)
From RattrV Require Export Base Str Cli.
Open Scope string_scope.
Open Scope list_scope.

Section Spec.
  Variable descs : list odesc.                     (* the options common to both sources *)
  Variable toml_types : list (string * ttype).
  Variable toml_rename : list (string * string).

  Definition key_flag (k : string) : string := ("--" ++ sys_name toml_rename k)%string.

  (* the TOML value given for option d: the last supported key that names it *)
  Definition toml_for (d : odesc) (conf : list (string * tval)) : option tval :=
    match filter (fun kv => mem (key_flag (fst kv)) (od_flags d)
                            && match type_of_key toml_types (fst kv) with Some _ => true | None => false end) conf with
    | [] => None
    | l => Some (snd (last l ("", TOther)))
    end.

  Definition cli_values (d : odesc) (cli : list item) : list (option string) :=
    map it_value (filter (fun it => mem (it_flag it) (od_flags d)) cli).

  (* a TOML value is valid for its option: exact type (a bool is not an int) and within the choices *)
  Definition toml_value_valid (d : odesc) (t : ttype) (v : tval) : bool :=
    match t, v with
    | TTFlag, TBool _ => true
    | TTInt, TInt s => match od_action d with AStore _ (Some cs) => mem s cs | _ => true end
    | TTString, TStr s => match od_action d with AStore _ (Some cs) => mem s cs | _ => true end
    | TTListOfStrings, TList l => forallb is_tstr l
    | _, _ => false
    end.

  Definition conf_valid (conf : list (string * tval)) : bool :=
    forallb (fun kv =>
               match type_of_key toml_types (fst kv) with
               | None => true                                   (* unknown keys are ignored *)
               | Some t => match find (fun d => mem (key_flag (fst kv)) (od_flags d)) descs with
                           | Some d => toml_value_valid d t (snd kv)
                           | None => false
                           end
               end) conf.

  (* "given" for the purposes of mutual exclusion: set to something other than the default *)
  Definition non_default (d : odesc) (s : string) : bool :=
    match od_default d with VStr t => negb (String.eqb s t) | _ => true end.
  Definition given_toml (d : odesc) (conf : list (string * tval)) : bool :=
    match toml_for d conf with
    | Some (TBool b) => b                  (* a flag set to false is "not given" *)
    | Some (TList []) => false
    | Some (TInt s) | Some (TStr s) => non_default d s
    | Some _ => true
    | None => false
    end.
  Definition given_cli (d : odesc) (cli : list item) : bool :=
    existsb (fun v => match v with Some s => non_default d s | None => true end) (cli_values d cli).

  (* two different options of one mutex group from the same source *)
  Definition mutex_conflict (given : odesc -> bool) : bool :=
    existsb (fun d1 => existsb (fun d2 => negb (String.eqb (od_dest d1) (od_dest d2))
                                           && match od_mutex d1, od_mutex d2 with Some a, Some b => Nat.eqb a b | _, _ => false end
                                           && given d1 && given d2) descs) descs.

  Definition effective (d : odesc) (conf : list (string * tval)) (cli : list item) : oval :=
    match od_action d with
    | AStore _ _ =>
      match last (cli_values d cli) None with
      | Some v => VStr v
      | None => match toml_for d conf with
                | Some (TInt s) | Some (TStr s) => VStr s
                | _ => od_default d
                end
      end
    | AStoreTrue =>
      if negb (is_nil (cli_values d cli)) || match toml_for d conf with Some (TBool true) => true | _ => false end
      then VBool true else od_default d
    | AAppend =>
      let t := match toml_for d conf with Some (TList l) => map (tval_text) l | _ => [] end in
      let c := flat_map (fun v => match v with Some s => [s] | None => [] end) (cli_values d cli) in
      match t ++ c with [] => od_default d | l => VList l end
    end.

  (* a command-line item is valid: a known option, a value exactly when the option takes one, of the
     option's type and within its choices *)
  Variable all_descs : list odesc.                  (* every command-line option *)
  Definition cli_item_valid (it : item) : bool :=
    match find (fun d => mem (it_flag it) (od_flags d)) all_descs with
    | None => false
    | Some d =>
      match od_action d, it_value it with
      | AStoreTrue, None => true
      | AStore ty ch, Some s => (match ty with TyInt => is_int_text s | _ => true end)
                                && (match ch with Some cs => mem s cs | None => true end)
      | AAppend, Some _ => true
      | _, _ => false
      end
    end.

  Definition spec_outcome (conf : list (string * tval)) (cli : list item) : option (list (string * oval)) :=
    if negb (conf_valid conf) || negb (forallb cli_item_valid cli) || mutex_conflict (fun d => given_toml d conf) || mutex_conflict (fun d => given_cli d cli)
    then None
    else Some (map (fun d => (od_dest d, effective d conf cli)) descs).
End Spec.

(* former finding classes KF_C20_1 (a value that starts with "-") and KF_C20_2 (a TOML boolean for an integer option):
   repaired by 896d4cc and 954a4ba; the predicates stay so that a return of either behaviour is named in the replay *)
Definition KF_C20_1 (conf : list (string * tval)) (cli : list item) : bool :=
  existsb (fun kv => match snd kv with
                     | TStr s => option_like s
                     | TList l => existsb (fun x => option_like (tval_text x)) l
                     | _ => false
                     end) conf
  || existsb (fun it => match it_value it with Some s => option_like s | None => false end) cli.
Definition KF_C20_2 (toml_types : list (string * ttype)) (conf : list (string * tval)) : bool :=
  existsb (fun kv => match type_of_key toml_types (fst kv), snd kv with Some TTInt, TBool _ => true | _, _ => false end) conf.

Definition oval_eqb (a b : oval) : bool :=
  match a, b with
  | VStr x, VStr y => String.eqb x y
  | VBool x, VBool y => Bool.eqb x y
  | VList x, VList y => strs_eqb x y
  | VNone, VNone => true
  | _, _ => false
  end.
