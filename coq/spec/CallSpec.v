(* Specification for C09: what the call record of each call site must contain.
     args   = the positional arguments in source order, each spelled in the nameable format;
     kwargs = the keyword arguments by keyword;
     when the callee is a class the instance under construction is prepended: the assignment
     target for `x = C(...)`, "@ReturnValue" for `return C(...)` (also inside returned containers),
     "@" + class name otherwise. *)
From RattrV Require Export Base Str PyAst Naming Spell Context FuncAn Occurs.
Open Scope string_scope.
Open Scope list_scope.

Inductive cctx := CAssigned (target : string) | CReturned | COther.

Definition call_site := (node * cctx)%type.

Definition kw_spells (kws : list node) : dict :=
  fold_left (fun d kw => match kw with EKw (Some k) v => dset d k (spell_u v) | _ => d end) kws [].

(* the call sites of a body that lie outside the pruned positions (same pruning as `occs false`) *)
Fixpoint csites (tag : cctx) (n : node) {struct n} : list call_site :=
  let clist := fix clist (l : list node) : list call_site :=
                 match l with [] => [] | x :: r => csites COther x ++ clist r end in
  let rlist := fix rlist (l : list node) : list call_site :=
                 match l with [] => [] | x :: r => csites CReturned x ++ rlist r end in
  match n with
  | ECall f args kws _ =>
    if is_attr_call n || KF_C10_1 n then []
    else (n, tag) :: clist args ++ clist kws
  | EAttr v _ _ _ | EStar v _ _ | ESub v _ _ _ => if is_nameable v then [] else csites COther v
  | EKw _ v => csites COther v
  | ESeq _ es _ => match tag with CReturned => rlist es | _ => clist es end
  | EDict ks vs => match tag with CReturned => rlist ks ++ rlist vs | _ => clist ks ++ clist vs end
  | ELambda _ _ b _ => csites COther b
  | ENamed t v _ =>
    if definition_like_rhs v then []
    else csites COther t ++ csites (if is_seq_tl v then COther else CAssigned (spell_u t)) v
  | EComp _ es gs _ => clist gs ++ clist es
  | EGen t it ifs => csites COther t ++ csites COther it ++ clist ifs
  | SAssign ts v _ =>
    if definition_like_rhs v then []
    else clist ts ++ csites (match ts with
                             | [t] => if is_seq_tl t || is_seq_tl v then COther else CAssigned (spell_u t)
                             | _ => COther
                             end) v
  | SAnnAssign t a vs _ =>
    if existsb definition_like_rhs vs then []
    else csites COther t
         ++ (if existsb (fun v => match v with ECall _ _ _ _ => true | _ => false end) vs then [] else csites COther a)
         ++ match vs with
            | [v] => csites (if is_seq_tl t || is_seq_tl v then COther else CAssigned (spell_u t)) v
            | _ => []
            end
  | SAugAssign t v _ =>
    if definition_like_rhs v then []
    else csites COther t ++ csites (if is_seq_tl t || is_seq_tl v then COther else CAssigned (spell_u t)) v
  | SDelete ts _ => clist ts
  | SFor t it b o _ => csites COther t ++ csites COther it ++ clist b ++ clist o
  | SWith its b _ => clist its ++ clist b
  | EWithItem c vs => csites COther c ++ clist vs
  | SReturn vs _ => rlist vs
  | SFuncDef _ _ _ body _ => clist body
  | Other _ _ cs => clist cs
  | _ => []
  end.

Definition csites_body (fn : node) : list call_site := flat_map (csites COther) (body_of fn).

Definition standin (tag : cctx) (target : option sym) : string :=
  match tag with
  | CAssigned t => t
  | CReturned => "@ReturnValue"
  | COther => ("@" ++ match target with Some s => s_name s | None => "" end)%string
  end.

(* does record r mirror call site (n, tag)? *)
Definition record_mirrors (site : call_site) (r : callrec) : bool :=
  match fst site with
  | ECall _ args kws _ =>
    String.eqb (c_name r) (without_call_brackets (spell_u (fst site)))
    && dict_eqb (c_kw r) (kw_spells kws)
    && strs_eqb (c_args r)
                ((if is_class (c_target r) then [standin (snd site) (c_target r)] else []) ++ map spell_u args)
  | _ => false
  end.

Definition unmirrored (fn : node) (calls : list callrec) : list call_site :=
  filter (fun site => negb (existsb (record_mirrors site) calls)) (csites_body fn).
