(* Correspondence judgement for result generation (harness/res_lib.py cases). *)
From RattrV Require Import Base Str Context CallSwaps FuncAn FaCheck Results.
Open Scope string_scope.
Open Scope list_scope.

Record res_case := mkResCase {
  rc_env : env;                          (* file IR keys with their call sets in iteration order *)
  rc_store0 : store;                     (* gets / sets / dels of every function before generation *)
  rc_excluded : list string;             (* names matching an --exclude pattern *)
  rc_results : list fresult;             (* what generate_results_from_ir returned *)
  rc_store1 : store;                     (* the file IR after generation *)
  rc_raised : bool }.                    (* generation raised *)

Definition sset_eqb (a b : list string) : bool := forallb (fun x => mem x b) a && forallb (fun x => mem x a) b.

Definition fresult_eqb (a b : fresult) : bool :=
  String.eqb (r_id a) (r_id b) && sset_eqb (r_gets a) (r_gets b) && sset_eqb (r_sets a) (r_sets b)
  && sset_eqb (r_dels a) (r_dels b) && sset_eqb (r_calls a) (r_calls b).

Definition ir3_eqb (a b : ir3) : bool :=
  let '(g1, s1, d1) := a in let '(g2, s2, d2) := b in
  rset_eqb g1 g2 && rset_eqb s1 s2 && rset_eqb d1 d2.

Definition store_eqb (E : env) (a b : store) : bool :=
  forallb (fun e => ir3_eqb (get_ir a (fe_id e)) (get_ir b (fe_id e))) E.

Definition run_results (k : res_case) : gen_outcome :=
  generate (fun n => mem n (rc_excluded k)) (rc_env k) (rc_env k) (rc_store0 k) [].

(* 0 = model reproduces rattr (results and mutated IR); 1 = not *)
Definition res_corr_code (k : res_case) : nat :=
  match run_results k with
  | GOk rs s => if negb (rc_raised k) && list_eqb fresult_eqb rs (rc_results k) && store_eqb (rc_env k) s (rc_store1 k) then 0 else 1
  | GRaise => if rc_raised k then 0 else 1
  | GFuel => 1
  end.
