(* Per-case judgement for the C20 correspondence run (harness/props/c20.py), over the GENERATED tables. *)
From RattrV Require Import Base Str Cli Precedence CliTable.
Open Scope string_scope.
Open Scope list_scope.

Record c20_case := mkC20 {
  q_conf : list (string * tval);          (* the [tool.rattr] table in use *)
  q_cli : list item;                      (* the command line, canonical long options, common options only *)
  q_obs : option (list (string * oval)) }.   (* the namespace rattr produced (common dests), None = rejected *)

Definition common_dests : list string := map od_dest toml_descs.

Definition outcome_eqb (a b : option (list (string * oval))) : bool :=
  match a, b with
  | None, None => true
  | Some x, Some y =>
    forallb (fun d => match ns_get x d, ns_get y d with Some u, Some v => oval_eqb u v | None, None => true | _, _ => false end) common_dests
  | _, _ => false
  end.

Definition model_outcome (k : c20_case) : option (list (string * oval)) :=
  parse_arguments toml_descs cli_descs toml_types toml_rename (q_conf k) (q_cli k).

(* bit 0 model != rattr; bit 1 rattr's namespace violates the precedence specification; bit 2 / 3 finding classes *)
Definition c20_code (k : c20_case) : nat :=
  (if outcome_eqb (model_outcome k) (q_obs k) then 0 else 1)
  + (if outcome_eqb (spec_outcome toml_descs toml_types toml_rename cli_descs (q_conf k) (q_cli k)) (q_obs k) then 0 else 2)
  + (if KF_C20_1 (q_conf k) (q_cli k) then 4 else 0)
  + (if KF_C20_2 toml_types (q_conf k) then 8 else 0).
