(* Per-case judgement for the C10 correspondence run (harness/props/c10.py). *)
From RattrV Require Import Base PyAst Naming Spell.
Open Scope string_scope.
Open Scope list_scope.

Record c10_obs := mkC10 {
  n_safe_unravel : nres;      (* names_of(e, safe=True) *)
  n_safe_plain : nres;        (* names_of(e, safe=True, unravel_attr_access_calls=False) *)
  n_unsafe_unravel : nres;    (* names_of(e) *)
  n_unsafe_plain : nres;
  o_safe : nres;              (* get_basename_fullname_pair(e, safe=True) *)
  o_unsafe : nres }.

Definition model_obs (e : node) : c10_obs :=
  mkC10 (names_of true true e) (names_of true false e) (names_of false true e) (names_of false false e)
        (old_names true e) (old_names false e).

Definition obs_eqb (a b : c10_obs) : bool :=
  nres_eqb (n_safe_unravel a) (n_safe_unravel b) && nres_eqb (n_safe_plain a) (n_safe_plain b)
  && nres_eqb (n_unsafe_unravel a) (n_unsafe_unravel b) && nres_eqb (n_unsafe_plain a) (n_unsafe_plain b)
  && nres_eqb (o_safe a) (o_safe b) && nres_eqb (o_unsafe a) (o_unsafe b).

Definition is_raise (r : nres) : bool := match r with NRaise _ => true | _ => false end.
Definition is_ok (r : nres) : bool := match r with NOk _ _ => true | _ => false end.

(* the property, judged on what rattr answered *)
Definition check_C10 (e : node) (o : c10_obs) : bool :=
  if plain e then
    let want := NOk (spell_base e) (spell e) in
    nres_eqb (n_safe_unravel o) want && nres_eqb (n_safe_plain o) want && nres_eqb (o_safe o) want
    && (if strict e then nres_eqb (n_unsafe_unravel o) want && nres_eqb (o_unsafe o) want
        else is_raise (n_unsafe_unravel o) && is_raise (o_unsafe o))
  else match wellformed_chain e with
       | Some (fn, obj, lits) =>
         let want := NOk fn (dotted (spell obj) lits) in
         nres_eqb (n_safe_unravel o) want && nres_eqb (o_safe o) want
       | None =>
         (* outside the documented cases: safe naming must still not raise, and the two paths agree *)
         negb (is_raise (n_safe_unravel o)) && negb (is_raise (o_safe o))
         && (nres_eqb (n_safe_unravel o) (o_safe o) || (negb (is_ok (n_safe_unravel o)) && negb (is_ok (o_safe o))))
       end.

Definition c10_code (x : node * c10_obs) : nat :=
  let '(e, o) := x in
  (if obs_eqb (model_obs e) o then 0 else 1) + (if check_C10 e o then 0 else 2) + (if KF_C10_1 e then 4 else 0).
