(* Per-case judgement for the C13 correspondence run (harness/props/c13.py). *)
From RattrV Require Import Base ModNames PyImport.
Open Scope string_scope.
Open Scope list_scope.

Record c13_case := mkC13 {
  k_files : list (list string);        (* every file of the tree, absolute components *)
  k_dirs : list (list string);         (* every directory *)
  k_root : list string;                (* the search-path entry (cwd) *)
  k_file : list string;                (* the importing file, absolute components *)
  k_is_init : bool;
  k_true_name : list string;           (* its dotted name relative to the root: how Python names it *)
  k_level : nat;
  k_name : option string;              (* `from <dots><name> import ...` *)
  (* what rattr answered *)
  o_base : option string;              (* derive_module_name_from_path(file) *)
  o_abs : string;                      (* derive_absolute_module_name(base, name, level) *)
  o_found : option string;             (* find_module_name_and_spec(abs)[0] *)
  o_located : option (list string);    (* find_module_spec_fast(base).origin *)
  (* external oracle: importlib.util.resolve_name, None = ImportError *)
  r_oracle : option string }.

Definition path_eqb : list string -> list string -> bool := strs_eqb.
Definition in_paths (p : list string) (l : list (list string)) : bool := existsb (path_eqb p) l.

Definition k_is_dir (k : c13_case) (p : list string) : bool := in_paths p (k_dirs k).
Definition k_is_file (k : c13_case) (p : list string) : bool := in_paths p (k_files k).
Definition no_stdlib (_ : string) : bool := false.

Definition m_exists (k : c13_case) : string -> bool :=
  module_exists (k_is_dir k) (k_is_file k) [k_root k] no_stdlib no_stdlib.

Definition opt_paths_eqb (a b : option (list string)) : bool :=
  match a, b with Some x, Some y => path_eqb x y | None, None => true | _, _ => false end.

Definition c13_code (k : c13_case) : nat :=
  let m_base := derive_module_name_from_path (k_is_dir k) (k_is_file k) [k_root k] no_stdlib no_stdlib (k_file k) in
  let m_abs := match m_base with Some b => derive_absolute b (k_name k) (k_level k) (k_is_init k) | None => "" end in
  let m_found := find_module_name (k_is_dir k) (k_is_file k) [k_root k] no_stdlib no_stdlib m_abs in
  let m_loc := match m_base with Some b => locate (k_is_dir k) (k_is_file k) [k_root k] b | None => None end in
  let corr := opt_str_eqb m_base (o_base k) && String.eqb m_abs (o_abs k) && opt_str_eqb m_found (o_found k)
              && opt_paths_eqb m_loc (o_located k) in
  let clash := negb (opt_str_eqb (o_base k) (Some (join_dot (k_true_name k)))) in
  (* C13a on rattr's answers *)
  let a_ok := match r_oracle k with
              | Some r => String.eqb (o_abs k) r
              | None => match o_found k with None => true | Some _ => false end
              end in
  (* C13b on rattr's answer *)
  let b_ok := if starts_with_dot (o_abs k) then match o_found k with None => true | _ => false end
              else check_longest_prefix (m_exists k) (split_dot (o_abs k))
                     (match o_found k with Some f => Some (split_dot f) | None => None end) in
  (* C13c on rattr's answers *)
  (* a module file shadowed by a package directory of the same name cannot be imported by Python
     either (the package wins); the round trip is demanded of every other file *)
  let shadowed := match rev (k_file k) with
                  | last :: r => k_is_dir k (rev (remove_suffix_py last :: r))
                  | [] => false
                  end in
  let c_ok := shadowed || opt_paths_eqb (o_located k) (Some (k_file k)) in
  (* the spec itself against the oracle *)
  let spec_ok := opt_str_eqb
                   (match py_resolve (package_of (k_true_name k) (k_is_init k)) (k_level k)
                                     (match k_name k with Some n => Some (split_dot n) | None => None end) with
                    | Some r => Some (join_dot r) | None => None end)
                   (r_oracle k) in
  (if corr then 0 else 1) + (if a_ok then 0 else 2) + (if b_ok then 0 else 4) + (if c_ok then 0 else 8)
  + (if clash then 16 else 0) + (if spec_ok then 0 else 32).
