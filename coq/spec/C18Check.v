(* Per-case judgement for the C18 correspondence run: a real symbol, the JSON document rattr produced
   for it, and whether rattr's own deserialise gave the symbol back. *)
From RattrV Require Import Base Str CallSwaps Json.
Open Scope string_scope.
Open Scope list_scope.

Record sym_case := mkSymCase { sc_sym : symbol; sc_doc : json; sc_back_equal : bool }.

Fixpoint json_eqb (fuel : nat) (a b : json) : bool :=
  match fuel with
  | 0 => false
  | S f =>
    match a, b with
    | JNull, JNull => true
    | JBool x, JBool y => Bool.eqb x y
    | JNum x, JNum y => Nat.eqb x y
    | JStr x, JStr y => String.eqb x y
    | JArr x, JArr y => list_eqb (json_eqb f) x y
    | JObj x, JObj y => list_eqb (fun p q => String.eqb (fst p) (fst q) && json_eqb f (snd p) (snd q)) x y
    | _, _ => false
    end
  end.

Fixpoint symbol_eqb (fuel : nat) (a b : symbol) : bool :=
  json_eqb 12 (ser_symbol a) (ser_symbol b).

(* bit 0: the model's document differs from rattr's (same keys, same order, same values);
   bit 1: the document does not give the symbol back (by the model's deserialiser or by rattr's own) *)
Definition c18_code (k : sym_case) : nat :=
  (if json_eqb 12 (ser_symbol (sc_sym k)) (sc_doc k) then 0 else 1)
  + (if sc_back_equal k && match de_symbol (depth (sc_sym k)) (sc_doc k) with
                           | Some s => json_eqb 12 (ser_symbol s) (ser_symbol (sc_sym k))
                           | None => false
                           end then 0 else 2).
