(* Specification for C15 / C16, written from the README and the property text, not from the code.
   A run emits diagnostics (level, weight >= 0, place).  Badness per place is the sum of the weights
   emitted there; only target + simplification badness counts towards the threshold; the process
   exits 1 exactly when a fatal diagnostic is raised, or that badness exceeds a non-zero threshold,
   or strict mode is on and either a weighted error-level diagnostic arises anywhere or that badness
   is non-zero.  Verbosity decides only which lines are printed. *)
From RattrV Require Export DiagMonad.
Open Scope Z_scope.

Definition place_eqb (p q : place) : bool :=
  match p, q with InTarget, InTarget | InImport, InImport | NoFile, NoFile => true | _, _ => false end.

Fixpoint sum_at (p : place) (evs : list ev) : Z :=
  match evs with
  | [] => 0
  | e :: r => (if place_eqb (e_place e) p then e_weight e else 0) + sum_at p r
  end.

(* the badness that counts: target file + result simplification *)
Definition counted (evs : list ev) : Z := sum_at InTarget evs + sum_at NoFile evs.

Definition is_fatal (e : ev) : bool := match e_level e with DFatal => true | _ => false end.
Definition is_weighted_error (e : ev) : bool :=
  match e_level e with DError => e_weight e >? 0 | _ => false end.

Definition spec_exit1 (a : args) (evs : list ev) : Prop :=
  existsb is_fatal evs = true
  \/ (a_threshold a <> 0 /\ counted evs > a_threshold a)
  \/ (a_is_strict a = true /\ (existsb is_weighted_error evs = true \/ counted evs <> 0)).

(* which lines the documentation says are shown at each warning level *)
Definition visible (wl : wlevel) (e : ev) : bool :=
  match e_level e with
  | DError | DFatal => true
  | DWarning =>
    match e_place e with
    | InTarget => match wl with WNone => false | _ => true end
    | _ => match wl with WDefault | WAll => true | _ => false end
    end
  | DInfo => match wl with WAll => true | _ => false end
  end.

Definition wlevel_le (x y : wlevel) : bool :=
  match x, y with
  | WNone, _ => true
  | WLocal, (WLocal | WDefault | WAll) => true
  | WDefault, (WDefault | WAll) => true
  | WAll, WAll => true
  | _, _ => false
  end.

Inductive subseq {A} : list A -> list A -> Prop :=
| sub_nil : subseq [] []
| sub_skip x l1 l2 : subseq l1 l2 -> subseq l1 (x :: l2)
| sub_take x l1 l2 : subseq l1 l2 -> subseq (x :: l1) (x :: l2).

Definition weights_nonneg (evs : list ev) : Prop := Forall (fun e => 0 <= e_weight e) evs.

(* ---- decidable forms, used to judge what rattr itself did ---- *)

Definition spec_exit1b (a : args) (evs : list ev) : bool :=
  existsb is_fatal evs
  || (negb (a_threshold a =? 0) && (counted evs >? a_threshold a))
  || (a_is_strict a && (existsb is_weighted_error evs || negb (counted evs =? 0))).

Record observed := mkObs {
  o_exit : Z;                 (* process exit status *)
  o_target : Z; o_imports : Z; o_simpl : Z;   (* State buckets when the process ended *)
  o_log : list level }.       (* levels of the info/warning/error/fatal lines on stderr, in order *)

(* the prefix of the events that a run processes: up to and including the first escalating one *)
Definition escalates_b (a : args) (e : ev) : bool :=
  match e_level e with
  | DFatal => true
  | DError => (e_weight e >? 0) && a_is_strict a
  | _ => false
  end.
Fixpoint processed (a : args) (evs : list ev) : list ev :=
  match evs with
  | [] => []
  | e :: r => if escalates_b a e then [e] else e :: processed a r
  end.

Definition diag_case := (args * list ev * list ev * observed)%type.

(* "each emitted diagnostic adds its weight": the diagnostics that count are the ones that are emitted.  Of the events a
   run processes, the ones visible at the chosen warning level (and not turned into the fatal line of a strict-mode
   escalation) are printed, each once, in order - so what is counted and what the user can see agree *)
Definition is_fatal_level (l : level) : bool := match l with LFatal => true | _ => false end.
Definition line_of (d : dlevel) : level :=
  match d with DInfo => LInfo | DWarning => LWarning | DError => LError | DFatal => LFatal end.
Definition expected_lines (a : args) (evs : list ev) : list level :=
  map (fun e => line_of (e_level e)) (filter (fun e => visible (a_warning_level a) e && negb (escalates_b a e) && negb (is_fatal e)) (processed a evs)).
Definition printed_as_counted (a : args) (evs : list ev) (o : observed) : bool :=
  levels_eqb (filter (fun l => negb (is_fatal_level l) && negb (level_eqb l LRattr)) (o_log o)) (expected_lines a evs).

(* C15 judged on what rattr itself did *)
Definition check_C15 (c : diag_case) : bool :=
  let '(a, evA, evS, o) := c in
  let evs := evA ++ map at_nofile evS in
  let p := processed a evs in
  (o_exit o =? (if spec_exit1b a evs then 1 else 0))
  && (o_target o =? sum_at InTarget p) && (o_imports o =? sum_at InImport p) && (o_simpl o =? sum_at NoFile p)
  && printed_as_counted a evs o.

(* C16: two observations of the same program under options that differ only in verbosity *)
Fixpoint subseqb (x y : list level) : bool :=
  match x, y with
  | [], _ => true
  | _ :: _, [] => false
  | a :: x', b :: y' => if level_eqb a b then subseqb x' y' else subseqb x y'
  end.

Definition is_err_level (l : level) : bool := match l with LError | LFatal => true | _ => false end.

Definition check_C16_pair (lo hi : observed) : bool :=
  (o_exit lo =? o_exit hi) && (o_target lo =? o_target hi) && (o_imports lo =? o_imports hi)
  && (o_simpl lo =? o_simpl hi) && subseqb (o_log lo) (o_log hi)
  && levels_eqb (filter is_err_level (o_log lo)) (filter is_err_level (o_log hi)).
