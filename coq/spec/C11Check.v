(* Per-case judgement for the C11 runs. *)
From RattrV Require Import Base Str Context CallSwaps FuncAn Results Annot.
Open Scope string_scope.
Open Scope list_scope.

Inductive aobs := OAccept (g s d : list string) (calls : list (string * list string * dict)) | OFatalDiag | OCrash.

Record annot_case := mkAnnotCase {
  ac_names_ok : list string;                       (* the strings of the case for which rattr's is_name holds *)
  ac_pos : list pyval; ac_kw : list (option string * pyval);
  ac_obs : aobs }.

Definition sset_eq (a b : list string) : bool := forallb (fun x => mem x b) a && forallb (fun x => mem x a) b.
Definition call_eqb (a b : string * list string * dict) : bool :=
  String.eqb (without_call_brackets (fst (fst a))) (without_call_brackets (fst (fst b))) && strs_eqb (snd (fst a)) (snd (fst b))
  && forallb (fun kv => existsb (pair_eqb kv) (snd b)) (snd a) && forallb (fun kv => existsb (pair_eqb kv) (snd a)) (snd b).
Definition calls_eq (a b : list (string * list string * dict)) : bool :=
  forallb (fun x => existsb (call_eqb x) b) a && forallb (fun x => existsb (call_eqb x) a) b.

(* bit 0: model and rattr disagree (accept / fatal, or the declared names); bit 1: rattr crashed instead of accepting or
   printing its fatal diagnostic *)
Definition annot_code (k : annot_case) : nat :=
  (match annotation (fun s => mem s (ac_names_ok k)) (ac_pos k) (ac_kw k), ac_obs k with
   | AOk d, OAccept g s dl c => if sset_eq (d_gets d) g && sset_eq (d_sets d) s && sset_eq (d_dels d) dl && calls_eq (d_calls d) c then 0 else 1
   | AFatal, OFatalDiag => 0
   | _, _ => 1
   end)
  + (match ac_obs k with OCrash => 2 | _ => 0 end).

Record file_case := mkFileCase {
  fc_names_ok : list string;
  fc_excluded : list string;                       (* names matching an --exclude pattern *)
  fc_defs : list topdef;
  fc_fatal : bool;                                 (* the analysis ended with the fatal diagnostic *)
  fc_keys : list string }.                         (* keys of the file IR *)

(* bit 0: the model's entries differ from the IR's keys; bit 1: a function / class that is ignored or excluded has an entry;
   bit 2: finding class KF_C11_1 - an excluded lambda or static method has an entry; bit 3: the model ends in fatal *)
Definition file_code (k : file_case) : nat :=
  let ex := fun n => mem n (fc_excluded k) in
  (match file_entries (fun s => mem s (fc_names_ok k)) ex (fc_defs k) with
   | FEntries l => if negb (fc_fatal k) && sset_eq (map fst l) (fc_keys k) then 0 else 1
   | FFatal => if fc_fatal k then 0 else 1
   end)
  + (if existsb (fun t => match td_kind t with
                          | DFunc | DClass => (td_ignore t || ex (td_name t)) && mem (td_name t) (fc_keys k)
                          | DStatic cls => (td_ignore t || ex cls) && mem (td_name t) (fc_keys k)      (* part of an ignored / excluded class *)
                          | _ => false end) (fc_defs k) then 2 else 0)
  + (if existsb (fun t => match td_kind t with
                          | DLambda | DStatic _ => ex (td_name t) && mem (td_name t) (fc_keys k)
                          | _ => false end) (fc_defs k) then 4 else 0)
  (* value 8: some declaration of the file is malformed by the specification (the model ends in the fatal diagnostic) *)
  + (match file_entries (fun s => mem s (fc_names_ok k)) ex (fc_defs k) with FFatal => 8 | _ => 0 end).
