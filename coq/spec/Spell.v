(* Specification for C10: the README's nameable format, written independently of rattr's code.
     x -> x;  e.a -> E.a;  e[i] -> E[];  e(...) -> E();  *e -> *E;  no name -> "@" + node type;
   base = identifier of the innermost variable, or that "@" stand-in.
   getattr / hasattr / setattr / delattr calls with literal names spell as the dotted access. *)
From RattrV Require Export Base PyAst Naming.
Open Scope string_scope.
Open Scope list_scope.

Fixpoint spell (n : node) : string :=
  match n with
  | EName id _ _ => id
  | EAttr v a _ _ => (spell v ++ "." ++ a)%string
  | ESub v _ _ _ => (spell v ++ "[]")%string
  | ECall f _ _ _ => (spell f ++ "()")%string
  | EStar v _ _ => ("*" ++ spell v)%string
  | _ => ("@" ++ kind_of n)%string
  end.

Fixpoint spell_base (n : node) : string :=
  match n with
  | EName id _ _ => id
  | EAttr v _ _ _ | ESub v _ _ _ | EStar v _ _ => spell_base v
  | ECall f _ _ _ => spell_base f
  | _ => ("@" ++ kind_of n)%string
  end.

(* the spine ends in a variable: every node on it is nameable *)
Fixpoint strict (n : node) : bool :=
  match n with
  | EName _ _ _ => true
  | EAttr v _ _ _ | ESub v _ _ _ | EStar v _ _ => strict v
  | ECall f _ _ _ => strict f
  | _ => false
  end.

(* the spine does not pass through (or end at) one of the four attribute-access builtins *)
Definition plain (n : node) : bool := negb (mem (spell_base n) ATTR_BUILTINS).

(* fn(fn(...fn(obj, "l1")..., "l(k-1)"), "lk"): nested direct calls to one attribute-access builtin
   with literal names; returns the innermost object and the literals, outermost last *)
Fixpoint chain_parts (fn : string) (n : node) {struct n} : option (node * list string) :=
  match n with
  | ECall (EName id _ _) (obj :: EConst (Some lit) :: _) _ _ =>
    if String.eqb id fn then
      match obj with
      | ECall _ _ _ _ =>
        match chain_parts fn obj with
        | Some (o, lits) => Some (o, lits ++ [lit])
        | None => None
        end
      | _ => Some (obj, [lit])
      end
    else None
  | _ => None
  end.

Definition dotted (base : string) (lits : list string) : string :=
  fold_left (fun acc l => (acc ++ "." ++ l)%string) lits base.

(* finding class: the expression's spine passes through an attribute-access builtin without being a
   well-formed literal chain over a plain, strictly nameable, non-call object *)
Definition wellformed_chain (n : node) : option (string * node * list string) :=
  match n with
  | ECall (EName id _ _) _ _ _ =>
    if mem id ATTR_BUILTINS then
      match chain_parts id n with
      | Some (o, lits) =>
        if plain o && strict o && negb (match o with ECall _ _ _ _ => true | _ => false end)
        then Some (id, o, lits) else None
      | None => None
      end
    else None
  | _ => None
  end.

Definition KF_C10_1 (n : node) : bool :=
  negb (plain n) && match wellformed_chain n with Some _ => false | None => true end.
