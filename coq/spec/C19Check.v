(* Per-case judgements for the C19 runs.  The model of model/Cache.v is instantiated with
   content := the md5 of the file (computed by the harness), hash := identity, results := the results JSON,
   and analysis / recorded := an oracle table built from a from-scratch real run in every world of the history. *)
From RattrV Require Import Base Str Json Cache CacheJson C18Check.
Open Scope string_scope.
Open Scope list_scope.

Definition res := option json.
Definition wld := world string.

Definition mk_world (target : string) (files : dict) (empty_hash : string) (args plugins version : string) : wld :=
  mkWorld target (fun p => match dget files p with Some h => h | None => empty_hash end) args plugins version.

Definition hashf (c : string) : string := c.

(* the key under which the harness stored the from-scratch run of a world *)
Definition fingerprint (paths : list string) (w : wld) : string :=
  String.concat "|" ([w_version w; w_args_hash w; w_plugins_hash w; w_target w] ++ map (w_files w) paths).

Definition oracle := list (string * (list string * json)).
Fixpoint olookup (o : oracle) (k : string) : option (list string * json) :=
  match o with [] => None | (k', v) :: r => if String.eqb k k' then Some v else olookup r k end.

Definition analysis_of (paths : list string) (o : oracle) (w : wld) : res :=
  match olookup o (fingerprint paths w) with Some (_, r) => Some r | None => None end.
Definition recorded_of (paths : list string) (o : oracle) (w : wld) : list string :=
  match olookup o (fingerprint paths w) with Some (r, _) => r | None => [] end.

Definition res_eqb (a b : res) : bool :=
  match a, b with Some x, Some y => json_eqb 40 x y | None, None => true | _, _ => false end.

Definition cdoc_eqb (a b : cdoc res) : bool :=
  String.eqb (c_version a) (c_version b) && String.eqb (c_args_hash a) (c_args_hash b)
  && String.eqb (c_plugins_hash a) (c_plugins_hash b) && String.eqb (c_filepath a) (c_filepath b)
  && String.eqb (c_filehash a) (c_filehash b) && dict_eqb (c_imports a) (c_imports b)
  && res_eqb (c_results a) (c_results b).

Definition cf_eqb (a b : cache_file res) : bool :=
  match a, b with
  | CAbsent, CAbsent | CMalformed, CMalformed => true
  | CDoc x, CDoc y => cdoc_eqb x y
  | _, _ => false
  end.

(* ---------- histories ---------- *)
Inductive hop :=
| HEdit (path hash : string) | HArgs (h : string) | HVersion (v : string) | HPlugins (h : string)
| HOverwrite (d : disk) | HRemove | HRun | HRefresh.

Definition to_op (o : hop) : op string res :=
  match o with
  | HEdit p h => Edit p h | HArgs h => SetArgs h | HVersion v => SetVersion v | HPlugins h => SetPlugins h
  | HOverwrite d => Overwrite (read_cache d) | HRemove => Remove | HRun => Run | HRefresh => RunRefresh
  end.

Record hist_case := mkHist {
  h_target : string; h_files : dict; h_empty : string;
  h_args : string; h_plugins : string; h_version : string;
  h_paths : list string;
  h_oracle : oracle;
  h_ops : list hop;
  h_obs : list (bool * disk)       (* per run: "cache is up-to-date" seen, the cache file after the run *)
}.

Section Hist.
  Variable k : hist_case.
  Let an := analysis_of (h_paths k) (h_oracle k).
  Let rc := recorded_of (h_paths k) (h_oracle k).

  (* walk the history with the model; for every run: (world at the run, hit, cache file after) *)
  Fixpoint walk (st : wld * cache_file res) (ops : list hop) : list (wld * bool * cache_file res) :=
    match ops with
    | [] => []
    | o :: r =>
      let '(st', ob) := step string hashf res an rc st (to_op o) in
      match ob with
      | Some run => (fst st', r_hit run, snd st') :: walk st' r
      | None => walk st' r
      end
    end.

  Definition predicted : list (wld * bool * cache_file res) :=
    walk (mk_world (h_target k) (h_files k) (h_empty k) (h_args k) (h_plugins k) (h_version k), CAbsent) (h_ops k).

  Fixpoint zip_all {A B} (f : A -> B -> bool) (a : list A) (b : list B) : bool :=
    match a, b with
    | [], [] => true
    | x :: r, y :: s => f x y && zip_all f r s
    | _, _ => false
    end.

  (* bit 0: the model's hits / cache files differ from rattr's;
     bit 1: after some run the cache file is not the from-scratch document of the world at that moment
            (this covers the hit case: the cached results are what a fresh run gives);
     bit 2: the oracle has no entry for a world the history reaches (harness error);
     bit 3: some run declared a hit although the world does not agree with the cached snapshot on the
            target, an option hash, the version, or a recorded origin *)
  Definition hist_code : nat :=
    (if zip_all (fun p o => Bool.eqb (snd (fst p)) (fst o) && cf_eqb (snd p) (read_cache (snd o))) predicted (h_obs k) then 0 else 1)
    + (if zip_all (fun p o => cf_eqb (read_cache (snd o)) (CDoc (snapshot string hashf res an rc (fst (fst p))))) predicted (h_obs k) then 0 else 2)
    + (if forallb (fun p => match olookup (h_oracle k) (fingerprint (h_paths k) (fst (fst p))) with Some _ => true | None => false end) predicted then 0 else 4).
End Hist.

(* ---------- one-shot judgement of the up-to-date predicate on mutated documents ---------- *)
Record mut_case := mkMut {
  m_target : string; m_files : dict; m_empty : string;
  m_args : string; m_plugins : string; m_version : string;
  m_original : json;               (* the document a real run wrote *)
  m_disk : disk;                   (* what the cache file holds now *)
  m_world_changed : bool;          (* the harness changed target / an import / an option after the cache was written *)
  m_damaged : bool;                (* the file was damaged in a way the property quantifies over: truncated, not JSON, a value
                                      replaced by one of another JSON type, a key deleted (same-type value edits are not) *)
  m_hit : bool                     (* target_cache_file_is_up_to_date said True *)
}.

Definition lacks (kvs : list (string * json)) (key : string) : bool :=
  match jget kvs key with
  | None => true
  | Some (JArr []) | Some (JObj []) | Some (JStr "") => true
  | Some _ => false
  end.

Definition entry_lacks_path (j : json) : bool :=
  match j with JObj kv => match jget kv "filepath" with None => true | Some _ => false end | _ => false end.

Definition not_array (o : option json) : bool := match o with Some (JArr _) => false | _ => true end.
Definition entry_coerced (j : json) : bool :=
  match j with
  | JObj kv => not_array (jget kv "gets") || not_array (jget kv "sets") || not_array (jget kv "dels") || not_array (jget kv "calls")
  | _ => false
  end.

(* finding class KF_C19_2 (lenient structuring): the document lost (or had emptied) its imports or its
   results, an import entry lost its filepath, or a list of the results was replaced by a string / object -
   attrs defaults and cattrs coercions let it structure all the same *)
Definition kf_emptied (d : disk) (orig : json) : bool :=
  match d, orig with
  | DJson (JObj kvs), JObj okvs =>
    (lacks kvs "imports" && negb (lacks okvs "imports")) || (lacks kvs "results" && negb (lacks okvs "results"))
    || match jget kvs "imports" with Some (JArr l) => existsb entry_lacks_path l | _ => false end
    || match jget kvs "results" with Some (JObj r) => existsb (fun kv => entry_coerced (snd kv)) r | _ => false end
  | _, _ => false
  end.

Definition model_hit (k : mut_case) : bool :=
  match read_cache (m_disk k) with
  | CDoc c => up_to_date string hashf res (mk_world (m_target k) (m_files k) (m_empty k) (m_args k) (m_plugins k) (m_version k)) c
  | _ => false
  end.

(* bit 0: model and rattr disagree on the verdict;
   bit 1: rattr declared a hit although the file no longer holds the document that was written
          (or the world changed);
   bit 2: the case lies in the finding class KF_C19_2 *)
Definition mut_code (k : mut_case) : nat :=
  (if Bool.eqb (model_hit k) (m_hit k) then 0 else 1)
  + (if m_hit k && (m_world_changed k || (m_damaged k && negb (cf_eqb (read_cache (m_disk k)) (de_cache (m_original k))))) then 2 else 0)
  + (if kf_emptied (m_disk k) (m_original k) then 4 else 0).
