(* Specification for C17: Python's local binding rules, as a forward pass over a function body in
   evaluation order.  The pass yields, for every place where a name is read (a Name, the base of
   an attribute / subscript / starred chain, the base of a call), whether that name is bound at
   that point: parameters, builtins, module-level names, earlier plain / augmented / annotated /
   walrus assignment targets, for / with / except / match targets, comprehension targets inside
   the comprehension, nested def / class names; minus `del` of a plain name.  Deleting or assigning
   an attribute or item never unbinds its base. *)
From RattrV Require Export Base Str PyAst Naming Spell Occurs.
Open Scope string_scope.
Open Scope list_scope.

Record bst := mkB { b_bound : list string; b_deleted : list string }.

Fixpoint remove_all (x : string) (l : list string) : list string :=
  match l with [] => [] | y :: r => if String.eqb x y then remove_all x r else y :: remove_all x r end.

Definition bind (x : string) (st : bst) : bst := mkB (x :: b_bound st) (remove_all x (b_deleted st)).
Definition unbind (x : string) (st : bst) : bst := mkB (remove_all x (b_bound st)) (x :: b_deleted st).
Definition binds (xs : list string) (st : bst) : bst := fold_left (fun s x => bind x s) xs st.

Record site := mkSite {
  st_name : string; st_pos : pos;
  st_bound : bool;        (* the name is bound at this point *)
  st_deleted : bool;      (* ... it was unbound by `del` of that variable and not rebound *)
  st_demanded : bool }.   (* the read sits where the analyser is required to look (outside finding-class positions)
                             and is an expression-context Load *)

Definition mk_site (x : string) (p : pos) (st : bst) (dem : bool) : list site :=
  if starts_with "@" x then [] else [mkSite x p (mem x (b_bound st)) (mem x (b_deleted st)) dem].

Definition params_names (ps : params) : list string :=
  p_posonly ps ++ p_args ps ++ opt_list (p_vararg ps) ++ p_kwonly ps ++ opt_list (p_kwarg ps).

Definition is_load (c : ectx) : bool := match c with Load => true | _ => false end.
Definition is_store (c : ectx) : bool := match c with Store => true | _ => false end.

Fixpoint bwalk (dem : bool) (n : node) (st : bst) {struct n} : bst * list site :=
  let walks := fix walks (d : bool) (l : list node) (s : bst) : bst * list site :=
                 match l with
                 | [] => (s, [])
                 | x :: r => let '(s1, a) := bwalk d x s in let '(s2, b) := walks d r s1 in (s2, a ++ b)
                 end in
  match n with
  | EName id c p =>
    if is_store c then (bind id st, []) else (st, mk_site id p st (dem && is_load c))
  | EAttr v _ c _ | EStar v c _ =>
    let here := if is_store c then [] else mk_site (spell_base n) (pos_of n) st (dem && is_load c) in
    let '(s1, a) := match n, v with
                    | EStar _ Store _, EName id _ _ => (bind id st, [])      (* `a, *rest = xs` binds rest *)
                    | _, _ => if is_nameable v then binner dem v st else bwalk dem v st
                    end in
    (match n with EStar _ Store _ => s1 | _ => st end, here ++ a)
  | ESub v sl c _ =>
    let here := if is_store c then [] else mk_site (spell_base n) (pos_of n) st (dem && is_load c) in
    let '(_, a) := if is_nameable v then binner dem v st else bwalk dem v st in
    (* the index / slice of a subscript is visited (repair of KF_C01_1): its reads are demanded like the rest *)
    let '(_, b) := bwalk dem sl st in
    (st, here ++ a ++ b)
  | ECall f args kws p =>
    if is_attr_call n then
      let '(_, a) := walks false args st in let '(_, b) := walks false kws st in (st, a ++ b)
    else
      let here := mk_site (spell_base n) p st dem in
      let '(s1, a) := walks dem args st in
      let '(s2, b) := walks dem kws s1 in
      let '(_, c) := if is_nameable f then binner dem f st else bwalk false f st in
      (s2, here ++ a ++ b ++ c)
  | EKw _ v => bwalk dem v st
  | EConst _ | ENoKey | SForbidden _ _ => (st, [])
  | ESeq _ es _ => walks dem es st
  | EDict ks vs => let '(s1, a) := walks dem ks st in let '(s2, b) := walks dem vs s1 in (s2, a ++ b)
  | ELambda ps d b _ =>
    let '(_, a) := walks false d st in
    let '(_, c) := bwalk dem b (binds (params_names ps) st) in
    (st, a ++ c)
  | ENamed t v _ =>
    let '(s1, a) := bwalk (dem && negb (definition_like_rhs v)) v st in
    let '(s2, b) := bwalk dem t s1 in (s2, a ++ b)
  | EComp _ es gs _ =>
    let '(s1, a) := walks dem gs st in
    let '(_, b) := walks dem es s1 in
    (st, a ++ b)
  | EGen t it ifs =>
    let '(s1, a) := bwalk dem it st in
    let '(s2, b) := bwalk dem t s1 in
    let '(s3, c) := walks dem ifs s2 in (s3, a ++ b ++ c)
  | SAssign ts v _ =>
    let d := dem && negb (definition_like_rhs v) in
    let '(s1, a) := bwalk d v st in
    let '(s2, b) := walks d ts s1 in (s2, a ++ b)
  | SAnnAssign t a vs _ =>
    let d := dem && negb (existsb definition_like_rhs vs) in
    let '(_, x) := bwalk false a st in
    let '(s1, y) := walks d vs st in
    let '(s2, z) := match vs with [] => (s1, []) | _ => bwalk d t s1 end in
    (s2, x ++ y ++ z)
  | SAugAssign t v _ =>
    (* a lambda / namedtuple right-hand side is a definition for rattr (its reads are not demanded), as for = and := *)
    let '(s1, a) := bwalk (dem && negb (definition_like_rhs v)) v st in
    let '(s2, b) := bwalk dem t s1 in (s2, a ++ b)
  | SDelete ts _ =>
    (* reads first (a plain `del x` reads nothing but is a site of x), then every plain name in the
       (possibly nested) target list is unbound *)
    let '(s1, a) := walks dem ts st in
    (fold_left (fun s x => unbind x s)
               (flat_map (fold_nodes (fun m => match m with EName id Del _ => [id] | _ => [] end)) ts) s1, a)
  | SFor t it b o _ =>
    let '(s1, x) := bwalk dem it st in
    let '(s2, y) := bwalk dem t s1 in
    let '(s3, z) := walks dem b s2 in
    let '(s4, w) := walks dem o s3 in (s4, x ++ y ++ z ++ w)
  | SWith its b _ =>
    let '(s1, x) := walks dem its st in
    let '(s2, y) := walks dem b s1 in (s2, x ++ y)
  | EWithItem c vs =>
    let '(s1, x) := bwalk dem c st in
    let '(s2, y) := walks dem vs s1 in (s2, x ++ y)
  | SReturn vs _ => walks dem vs st
  | SFuncDef name ps outer body _ =>
    let '(_, a) := walks false outer st in
    let st1 := bind name st in
    let '(_, b) := walks dem body (binds (params_names ps) st1) in
    (st1, a ++ b)
  | SClassDef name _ _ => (bind name st, [])
  | Other k bs cs =>
    (* the name of `except E as name` is bound for the handler and unbound when the handler ends; the other binders
       (match captures, ...) stay bound *)
    let '(s1, x) := walks dem cs (binds bs st) in
    if String.eqb k "ExceptHandler" then (fold_left (fun s b => unbind b s) bs s1, x) else (s1, x)
  end
(* inside a spine, below its outermost node: the arguments of inner calls are read in positions the analyser is
   known not to look at (not demanded); the indexes / slices are visited (demanded as the context demands) *)
with binner (dem : bool) (v : node) (st : bst) {struct v} : bst * list site :=
  let walks := fix walks (l : list node) (s : bst) : bst * list site :=
                 match l with
                 | [] => (s, [])
                 | x :: r => let '(s1, a) := bwalk false x s in let '(s2, b) := walks r s1 in (s2, a ++ b)
                 end in
  match v with
  | EAttr v' _ _ _ | EStar v' _ _ => if is_nameable v' then binner dem v' st else bwalk false v' st
  | ESub v' sl _ _ =>
    let '(_, a) := if is_nameable v' then binner dem v' st else bwalk false v' st in
    let '(_, b) := bwalk dem sl st in (st, a ++ b)
  | ECall f args kws _ =>
    let '(s1, a) := walks args st in
    let '(s2, b) := walks kws s1 in
    let '(_, c) := if is_nameable f then binner dem f st else bwalk false f st in
    (s2, a ++ b ++ c)
  | _ => (st, [])
  end.

(* every identifier bound somewhere in the tree *)
Definition binders_of (n : node) : list string :=
  match n with
  | EName id Store _ => [id]
  | ELambda ps _ _ _ => params_names ps
  | SFuncDef name ps _ _ _ => name :: params_names ps
  | SClassDef name _ _ => [name]
  | Other _ bs _ => bs
  | _ => []
  end.

Definition fn_params (fn : node) : list string :=
  match fn with
  | SFuncDef _ ps _ _ _ | ELambda ps _ _ _ => params_names ps
  | _ => []
  end.

Definition sites_of (globals : list string) (fn : node) : list site :=
  let st0 := binds (fn_params fn) (mkB globals []) in
  snd ((fix go (l : list node) (s : bst) : bst * list site :=
          match l with
          | [] => (s, [])
          | x :: r => let '(s1, a) := bwalk true x s in let '(s2, b) := go r s1 in (s2, a ++ b)
          end) (body_of fn) st0).

Definition bound_anywhere (globals : list string) (fn : node) : list string :=
  globals ++ fn_params fn ++ flat_map (fold_nodes binders_of) (body_of fn).
