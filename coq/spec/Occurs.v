(* Specification for C01 / C02 / C09: which accesses a function body performs.

   `occs full body` is ONE generic traversal of all descendants of the body, written from the
   property text and the README, not from the analyser:
     - a Name / Attribute / Subscript / Starred node that is not the `value` of a nameable parent
       nor the `func` of a call contributes (get|set|del by its expression context, its spelling);
     - every Call contributes (call, spelled callee);
     - a getattr / hasattr / setattr / delattr call with literal attribute names contributes the
       equivalent attribute access instead.
   With full = false the traversal prunes exactly the positions of the listed finding classes
   (what the unchanged analyser is known not to descend into) and the shapes rattr documents as
   unsupported; with full = true it prunes nothing.  *)
From RattrV Require Export Base Str PyAst Naming Spell.
Open Scope string_scope.
Open Scope list_scope.

Inductive akind := AGet | ASet | ADel | ACall.
Definition occ := (akind * string)%type.

Definition akind_eqb (a b : akind) : bool :=
  match a, b with AGet, AGet | ASet, ASet | ADel, ADel | ACall, ACall => true | _, _ => false end.
Definition occ_eqb (a b : occ) : bool := akind_eqb (fst a) (fst b) && String.eqb (snd a) (snd b).
Definition occ_mem (x : occ) (l : list occ) : bool := existsb (occ_eqb x) l.

Definition kind_of_ctx (c : ectx) : akind := match c with Load => AGet | Store => ASet | Del => ADel end.

(* README spelling, with the documented getattr-family equivalence: fn(obj, "lit") spells as
   OBJ.lit and fn(obj, expr) as OBJ.<EXPR> (docstring of get_python_attr_access_fn_obj_attr_pair) *)
Fixpoint spell_u (n : node) : string :=
  match n with
  | EName id _ _ => id
  | EAttr v a _ _ => (spell_u v ++ "." ++ a)%string
  | ESub v _ _ _ => (spell_u v ++ "[]")%string
  | EStar v _ _ => ("*" ++ spell_u v)%string
  | ECall (EName fn _ _) (obj :: nm :: _) _ _ =>
    if mem fn ATTR_BUILTINS then
      (spell_u obj ++ "." ++ match nm with
                             | EConst (Some s) => s
                             | _ => ("<" ++ spell_u nm ++ ">")%string
                             end)%string
    else (fn ++ "()")%string
  | ECall f _ _ _ => (spell_u f ++ "()")%string
  | _ => ("@" ++ kind_of n)%string
  end.

Definition attr_kind (fn : string) : akind :=
  if String.eqb fn "setattr" then ASet else if String.eqb fn "delattr" then ADel else AGet.

Definition is_attr_call (n : node) : bool := existsb (is_call_to_fn n) ATTR_BUILTINS.

(* does the statement look like `name = lambda ...` / `name = namedtuple(...)` (rattr treats these as
   definitions, documented as unsupported inside functions) *)
Definition is_seq_tl (n : node) : bool := match n with ESeq KTuple _ _ | ESeq KList _ _ => true | _ => false end.
Definition is_lambda (n : node) : bool := match n with ELambda _ _ _ _ => true | _ => false end.
Definition looks_namedtuple (n : node) : bool :=
  match n with
  | ECall f _ _ _ => let s := spell_u f in String.eqb s "namedtuple" || ends_with ".namedtuple" s
  | _ => false
  end.
Definition definition_like_rhs (v : node) : bool :=
  is_lambda v || looks_namedtuple v
  || (is_seq_tl v && match v with ESeq _ es _ => existsb (fun e => is_lambda e || looks_namedtuple e) es | _ => false end).

Fixpoint occs (full : bool) (n : node) {struct n} : list occ :=
  let olist := fix olist (l : list node) : list occ :=
                 match l with [] => [] | x :: r => occs full x ++ olist r end in
  let when_full (l : list occ) : list occ := if full then l else [] in
  match n with
  | EName id c _ => [(kind_of_ctx c, id)]
  | EAttr v _ c _ | EStar v c _ =>
    (if KF_C10_1 n then when_full [(kind_of_ctx c, spell_u n)] else [(kind_of_ctx c, spell_u n)])
    ++ (if is_nameable v then inner full v else occs full v)
  | ESub v sl c _ =>
    (if KF_C10_1 n then when_full [(kind_of_ctx c, spell_u n)] else [(kind_of_ctx c, spell_u n)])
    ++ (if is_nameable v then inner full v else occs full v) ++ occs full sl
  | ECall f args kws _ =>
    if is_attr_call n then
      match wellformed_chain n with
      | Some (fn, o, lits) => [(attr_kind fn, dotted (spell o) lits)] ++ when_full (olist args ++ olist kws)
      | None => when_full (olist args ++ olist kws)
      end
    else if KF_C10_1 n then when_full (olist args ++ olist kws)
    else [(ACall, without_call_brackets (spell_u n))] ++ olist args ++ olist kws
         ++ (if is_nameable f then inner full f else when_full (occs full f))
  | EKw _ v => occs full v
  | EConst _ | ENoKey | SForbidden _ _ => []
  | ESeq _ es _ => olist es
  | EDict ks vs => olist ks ++ olist vs
  | ELambda _ d b _ => when_full (olist d) ++ occs full b
  | ENamed t v _ => if definition_like_rhs v then when_full (occs full t ++ occs full v) else occs full t ++ occs full v
  | EComp _ es gs _ => olist gs ++ olist es
  | EGen t it ifs => occs full t ++ occs full it ++ olist ifs
  | SAssign ts v _ => if definition_like_rhs v then when_full (olist ts ++ occs full v) else olist ts ++ occs full v
  | SAnnAssign t a vs _ =>
    if existsb definition_like_rhs vs then when_full (occs full t ++ occs full a ++ olist vs)
    else occs full t
         (* the annotation is not visited when the value instantiates a class: pruned for every call value *)
         ++ (if existsb (fun v => match v with ECall _ _ _ _ => true | _ => false end) vs
             then when_full (occs full a) else occs full a)
         ++ olist vs
  | SAugAssign t v _ => if definition_like_rhs v then when_full (occs full t ++ occs full v) else occs full t ++ occs full v
  | SDelete ts _ => olist ts
  | SFor t it b o _ => occs full t ++ occs full it ++ olist b ++ olist o
  | SWith its b _ => olist its ++ olist b
  | EWithItem c vs => occs full c ++ olist vs
  | SReturn vs _ => olist vs
  | SFuncDef _ _ outer body _ => when_full (olist outer) ++ olist body
  | SClassDef _ cs _ => when_full (olist cs)
  | Other _ _ cs => olist cs
  end
(* occurrences strictly inside a spine, below its outermost node (v is nameable) *)
with inner (full : bool) (v : node) {struct v} : list occ :=
  let olist := fix olist (l : list node) : list occ :=
                 match l with [] => [] | x :: r => occs full x ++ olist r end in
  let when_full (l : list occ) : list occ := if full then l else [] in
  match v with
  | EAttr v' _ _ _ | EStar v' _ _ =>
    if is_nameable v' then inner full v' else when_full (occs full v')
  | ESub v' sl _ _ =>
    (* the index / slice of every subscript on the spine is visited (fix of KF_C01_1) *)
    (if is_nameable v' then inner full v' else when_full (occs full v')) ++ occs full sl
  | ECall f args kws _ =>
    when_full ((if is_attr_call v || KF_C10_1 v then [] else [(ACall, without_call_brackets (spell_u v))])
               ++ olist args ++ olist kws)
    ++ (if is_nameable f then inner full f else when_full (occs full f))
  | _ => []
  end.

Definition body_of (fn : node) : list node :=
  match fn with
  | SFuncDef _ _ _ body _ => body
  | ELambda _ _ b _ => [b]
  | _ => []
  end.

Definition occs_body (full : bool) (fn : node) : list occ := flat_map (occs full) (body_of fn).

(* ---------- a generic fold over every node of a tree (used for derived names and call sites) ---------- *)
Section Fold.
  Context {A : Type} (f : node -> list A).
  Fixpoint fold_nodes (n : node) {struct n} : list A :=
    let go := fix go (l : list node) : list A := match l with [] => [] | x :: r => fold_nodes x ++ go r end in
    f n ++
    match n with
    | EName _ _ _ | EConst _ | ENoKey | SForbidden _ _ => []
    | EAttr v _ _ _ | EStar v _ _ | EKw _ v => fold_nodes v
    | ESub v sl _ _ => fold_nodes v ++ fold_nodes sl
    | ECall fn args kws _ => fold_nodes fn ++ go args ++ go kws
    | ESeq _ es _ => go es
    | EDict ks vs => go ks ++ go vs
    | ELambda _ d b _ => go d ++ fold_nodes b
    | ENamed t v _ => fold_nodes t ++ fold_nodes v
    | EComp _ es gs _ => go gs ++ go es
    | EGen t it ifs => fold_nodes t ++ fold_nodes it ++ go ifs
    | SAssign ts v _ => go ts ++ fold_nodes v
    | SAnnAssign t a vs _ => fold_nodes t ++ fold_nodes a ++ go vs
    | SAugAssign t v _ => fold_nodes t ++ fold_nodes v
    | SDelete ts _ => go ts
    | SFor t it b o _ => fold_nodes t ++ fold_nodes it ++ go b ++ go o
    | SWith its b _ => go its ++ go b
    | EWithItem c vs => fold_nodes c ++ go vs
    | SReturn vs _ => go vs
    | SFuncDef _ _ outer body _ => go outer ++ go body
    | SClassDef _ cs _ => go cs
    | Other _ _ cs => go cs
    end.
End Fold.

(* ---------- C02: documented derivations ---------- *)

(* dotted proper prefixes (excluding the base itself) of a called method's receiver *)
Definition receiver_prefix_names (callname : string) : list string :=
  match accumulate_dots (drop_last1 (split_dot callname)) with
  | _ :: rest => rest
  | [] => []
  end.

(* all proper dotted prefixes of a name *)
Definition dotted_prefixes (full : string) : list string :=
  let parts := split_dot full in
  map (fun k => join_dot (firstn k parts)) (seq 1 (List.length parts - 1)).

(* names derived from one node: receiver prefixes of calls, targets of getattr-family calls *)
Definition derived_of (n : node) : list occ :=
  match n with
  | ECall _ _ _ _ =>
    if is_attr_call n then
      match n with
      | ECall (EName fn _ _) _ _ _ =>
        match xpair_call fn n with
        | POk first second =>
          let full := (first ++ "." ++ second)%string in
          (attr_kind fn, full) :: map (fun p => (AGet, p)) (dotted_prefixes full)
        | _ => []
        end
      | _ => []
      end
    else
      let nm := without_call_brackets (spell_u n) in
      (ACall, nm) :: map (fun p => (AGet, p)) (receiver_prefix_names nm)
  | _ => []
  end.

Definition allowed_body (fn : node) : list occ :=
  occs_body true fn ++ flat_map (fold_nodes derived_of) (body_of fn).
