(* C08 at module level: what Python's binding rules make of a straight-line module (the LAST binding of a name
   wins, `del` unbinds), and the judgement of rattr's root context against it. *)
From RattrV Require Import Base Str ModNames Context RootCtx RootCheck.
Open Scope string_scope.
Open Scope list_scope.

Inductive pevent :=
| PBind (s : sym)
| PUnbind (n : string)
| PUnknown.                       (* a starred import or a compound statement: what is bound is not known statically *)

Definition head_of (dotted : string) : string := match split_dot dotted with x :: _ => x | [] => dotted end.

Section Py.
  Variable base : string.
  Variable is_init : bool.

  Definition py_alias (mo : option string) (a : alias) : pevent :=
    match mo, a with
    | None, mkAlias n None => PBind (mkSym (head_of n) (KImport (head_of n)))      (* import a.b binds a *)
    | None, mkAlias n (Some x) => PBind (mkSym x (KImport n))
    | Some m, mkAlias n asn =>
      if String.eqb n "*" then PUnknown else PBind (mkSym (bound_name a) (KImport (m ++ "." ++ n)))
    end.

  Definition py_kind (k : assign_kind) (n : string) : skind :=
    match k with
    | ALambda true t => if String.eqb t n then KFunc else KName
    | ANamedtuple true t _ => if String.eqb t n then KClass else KName
    | _ => KName
    end.

  Definition py_events (st : tstmt) : list pevent :=
    match st with
    | TImport aliases => map (py_alias None) aliases
    | TImportFrom m names level =>
      match level, m with
      | 0, None => [PUnknown]
      | 0, Some mn => map (py_alias (Some mn)) names
      | S _, _ => map (py_alias (Some (derive_absolute base m level is_init))) names
      end
    | TAssign k bound => map (fun n => PBind (mkSym n (py_kind k n))) bound
    | TDelete _ unbound => map PUnbind unbound
    | TDef n => [PBind (mkSym n KFunc)]
    | TClass n => [PBind (mkSym n KClass)]
    | TBlock _ => [PUnknown]
    | TIgnored => []
    end.
End Py.

Definition is_unknown (e : pevent) : bool := match e with PUnknown => true | _ => false end.

(* the meaning of a name after the events: the last event about it *)
Fixpoint last_binding (evs : list pevent) (n : string) (cur : option sym) : option sym :=
  match evs with
  | [] => cur
  | PBind s :: r => last_binding r n (if String.eqb (s_name s) n then Some s else cur)
  | PUnbind m :: r => last_binding r n (if String.eqb m n then None else cur)
  | PUnknown :: r => last_binding r n cur
  end.

Definition times_bound (evs : list pevent) (n : string) : nat :=
  List.length (filter (fun e => match e with PBind s => String.eqb (s_name s) n | PUnbind m => String.eqb m n | PUnknown => false end) evs).

Definition callable_sym (s : sym) : bool :=
  match s_kind s with KFunc | KClass | KImport _ => true | _ => false end.

(* rattr's symbol for a name against Python's: a name rattr does not know cannot be inlined wrongly (whether it
   SHOULD be known is C06's matter); otherwise both must be the same callable, or both no callable at all *)
Definition agree (r p : option sym) : bool :=
  match r, p with
  | None, _ => true
  | Some s, Some s' => sym_eqb s s' || (negb (callable_sym s) && negb (callable_sym s'))
  | Some s, None => negb (callable_sym s)
  end.

Definition events_of (k : root_ctx_case) : list pevent := flat_map (py_events (rk_base k) (rk_is_init k)) (rk_stmts k).

Definition names_of_interest (k : root_ctx_case) : list string :=
  flat_map (fun e => match e with PBind s => [s_name s] | PUnbind n => [n] | PUnknown => [] end) (events_of k)
  ++ filter (fun n => negb (contains "." n)) (map s_name (rk_tail k)).

Definition judged (k : root_ctx_case) : bool := negb (existsb is_unknown (events_of k)) && negb (rk_fatal k).

Definition disagreeing (k : root_ctx_case) : list string :=
  match model_root k with
  | RFatal => []
  | ROk sc =>
    filter (fun n => negb (agree (scope_get sc n) (last_binding (events_of k) n (scope_get (rk_init k) n)))) (names_of_interest k)
  end.

(* finding class KF_C08_3 (the first registration wins): every disagreeing name is bound (or unbound) more than once
   by Python, or registered more than once by rattr, or more than one statement says something about it (an
   assignment to alpha.attr, an annotation `alpha: int` register alpha; `import alpha.x` binds alpha for Python only)
   - counting the interpreter's own initial binding of a builtin or dunder name *)
Definition times_offered (k : root_ctx_case) (n : string) : nat :=
  List.length (filter (fun s => String.eqb (s_name s) n) (flat_map (binds (rk_base k) (rk_is_init k)) (rk_stmts k))).
(* the statements that say something about n: Python binds / unbinds it there, or rattr registers it there (the two
   differ: `n.attr = 1` and `n: int` register n, `import n.x` binds n) *)
Definition touches (k : root_ctx_case) (n : string) (st : tstmt) : bool :=
  existsb (fun e => match e with PBind s => String.eqb (s_name s) n | PUnbind m => String.eqb m n | PUnknown => false end)
          (py_events (rk_base k) (rk_is_init k) st)
  || existsb (fun s => String.eqb (s_name s) n) (binds (rk_base k) (rk_is_init k) st).
Definition times_touched (k : root_ctx_case) (n : string) : nat := List.length (filter (touches k n) (rk_stmts k)).
Definition rebound (k : root_ctx_case) (n : string) : bool :=
  let init := match scope_get (rk_init k) n with Some _ => 1 | None => 0 end in
  Nat.leb 2 (times_bound (events_of k) n + init) || Nat.leb 2 (times_offered k n + init) || Nat.leb 2 (times_touched k n + init).

(* 1: model <> rattr; 2: rattr's root context disagrees with Python's binding rules; 4: ... only on rebound names *)
Definition rootspec_code (k : root_ctx_case) : nat :=
  rootctx_code k
  + (if judged k then
       match disagreeing k with
       | [] => 0
       | l => 2 + (if forallb (rebound k) l then 4 else 0)
       end
     else 0).

(* the premises of the order theorem (proofs/RootProofs.v): nothing deleted or star-imported, every name offered once *)
Fixpoint plain_stmt (st : tstmt) : bool :=
  match st with
  | TImport aliases => negb (existsb is_star aliases)
  | TImportFrom _ names _ => negb (existsb is_star names)
  | TDelete _ _ => false
  | TBlock body => forallb plain_stmt body
  | _ => true
  end.
Fixpoint nodupb (l : list string) : bool :=
  match l with [] => true | x :: r => negb (mem x r) && nodupb r end.
Definition order_premises (k : root_ctx_case) : bool :=
  forallb plain_stmt (rk_stmts k) && nodupb (map s_name (flat_map (binds (rk_base k) (rk_is_init k)) (rk_stmts k))).

(* rootspec_code + 8 when the order theorem applies to the module *)
Definition rootsuite_code (k : root_ctx_case) : nat := rootspec_code k + (if order_premises k then 8 else 0).
