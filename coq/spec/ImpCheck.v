(* Per-case judgement for the multi-module runs (C06, C12 and the cross-file part of C05 / C14):
   the harness gives the locator / classification oracles, the root contexts and per-module IRs rattr built,
   what it observed (import_irs keys in order, call resolutions, results, IR after generation), and - for the
   C12 specification - the import graph read from the project's sources with Python's own ast / importlib. *)
From RattrV Require Import Base Str Context CallSwaps FuncAn FaCheck Results ResCheck Imports.
Open Scope string_scope.
Open Scope list_scope.

Record mod_in := mkModIn {
  mi_name : string;                       (* import_irs key; "<target>" for the target file *)
  mi_origin : string;
  mi_ctx : list (string * msym);
  mi_entries : list fentry }.             (* the module's file IR keys with their call sets *)

Record imp_case := mkImpCase {
  ic_locator : list (string * (option string * option string));   (* qualified name -> (module name, origin) *)
  ic_black : list string; ic_pip : list string; ic_stdlib : list string;    (* module names so classified *)
  ic_level : nat;                         (* --follow-imports *)
  ic_target : mod_in;
  ic_imports : list mod_in;               (* import_irs, in dict order *)
  ic_store0 : store;                      (* all modules, ids qualified m::f *)
  ic_results : list fresult;              (* generate_results_from_ir, target functions *)
  ic_store1 : store;
  ic_raised : bool;
  ic_resolutions : list (string * string * option (string * string));     (* Import-target calls: (local name, qualified name, resolved (module, name)) *)
  (* the specification side of C12: modules by origin with their imports as Python resolves them *)
  ic_graph : list (string * list string);         (* origin -> origins imported (only files that exist) *)
  ic_target_origin : string;
  ic_class : list (string * nat);                 (* origin -> 1 local, 2 site-packages, 3 stdlib *)
  ic_excluded_origins : list string;              (* origins whose module matches an --exclude-import pattern, or rattr itself *)
  ic_no_source : list string }.                   (* origins that are not existing files *)

Fixpoint tlookup {A} (t : list (string * A)) (k : string) : option A :=
  match t with [] => None | (k', v) :: r => if String.eqb k k' then Some v else tlookup r k end.

Section Case.
  Variable k : imp_case.

  Definition module_of (q : string) : option string := match tlookup (ic_locator k) q with Some (m, _) => m | None => None end.
  Definition origin_of_mod (mn : string) : option string :=
    match find (fun kv => match fst (snd kv) with Some m => String.eqb m mn | None => false end) (ic_locator k) with
    | Some (_, (_, o)) => o
    | None => None
    end.
  Definition fl := Nat.leb 1 (ic_level k).
  Definition fp := Nat.leb 2 (ic_level k).
  Definition fs := Nat.leb 3 (ic_level k).
  Definition bl (m : string) := mem m (ic_black k).
  Definition pip (m : string) := mem m (ic_pip k).
  Definition std (m : string) := mem m (ic_stdlib k).

  Definition to_modl (m : mod_in) : modl := mkMod (mi_name m) (mi_ctx m) (map fe_id (mi_entries m)).
  Definition irs : list modl := map to_modl (ic_imports k).
  Definition fuel : nat := 2 + fold_left (fun n m => n + List.length (mi_ctx m)) (ic_imports k) 0.

  Definition res_imp := resolve_import module_of bl pip std fl fp fs fuel irs [].

  (* ---------- call resolutions ---------- *)
  Definition res_matches (r : string * string * option (string * string)) : bool :=
    let '(n, q, obs) := r in
    match res_imp n q, obs with
    | RTarget mn ln _, Some (om, on) => String.eqb mn om && String.eqb ln on
    | RNone, None => true
    | RImportError, None => true
    | _, _ => false
    end.

  (* ---------- results ---------- *)
  Definition poison : fentry := mkF "!!raise" KFunc (mkIface [] [] None [] None) [].

  Definition iface_eqb (a b : iface) : bool :=
    strs_eqb (posonly a) (posonly b) && strs_eqb (args a) (args b) && opt_str_eqb (vararg a) (vararg b)
    && strs_eqb (kwonly a) (kwonly b) && opt_str_eqb (kwarg a) (kwarg b).

  Definition entries_of (owner : string) : list fentry :=
    if String.eqb owner (mi_name (ic_target k)) then mi_entries (ic_target k)
    else match find (fun m => String.eqb (mi_name m) owner) (ic_imports k) with Some m => mi_entries m | None => [] end.

  (* __resolve_target_and_ir: a Func symbol is taken from the TARGET file's IR only when it is (equal to) one of its
     keys AND was defined in the target file - the file may also have been analysed as an imported module, then
     both entries are the same definition; otherwise from the module the symbol was defined in.
     __resolve_real_class_target: the classes of that NAME, target file first, then the imported modules in the
     order of import_irs; among them the first one defined in the calling module's file, else the first. *)
  Definition origin_of_owner (owner : string) : string :=
    if String.eqb owner (mi_name (ic_target k)) then mi_origin (ic_target k)
    else match find (fun m => String.eqb (mi_name m) owner) (ic_imports k) with Some m => mi_origin m | None => "" end.
  Definition func_owner (owner nm : string) : string :=
    match find_entry (mi_entries (ic_target k)) nm KFunc, find_entry (entries_of owner) nm KFunc with
    | Some te, Some oe =>
      if iface_eqb (fe_iface te) (fe_iface oe) && String.eqb (origin_of_owner owner) (mi_origin (ic_target k))
      then mi_name (ic_target k) else owner
    | _, _ => owner
    end.
  Definition has_class (nm : string) (m : mod_in) : bool :=
    match find_entry (mi_entries m) nm KClass with Some _ => true | None => false end.
  Definition class_owner (owner nm : string) : string :=
    let cands := filter (has_class nm) (ic_target k :: ic_imports k) in
    match find (fun m => String.eqb (mi_origin m) (origin_of_owner owner)) cands with
    | Some m => mi_name m
    | None => match cands with m :: _ => mi_name m | [] => owner end
    end.

  Definition link_t (owner : string) (t : option sym) : option sym :=
    match t with
    | Some (mkSym nm (KImport q)) =>
      match res_imp nm q with
      | RFuel => Some (mkSym "!!raise" KFunc)
      | _ => link_target module_of bl pip std fl fp fs fuel irs owner t
      end
    | Some (mkSym nm KFunc) => Some (mkSym (qid (func_owner owner nm) nm) KFunc)
    | Some (mkSym nm KClass) => Some (mkSym (qid (class_owner owner nm) nm) KClass)
    | _ => link_target module_of bl pip std fl fp fs fuel irs owner t
    end.
  Definition link_e (owner : string) (e : fentry) : fentry :=
    mkF (qid owner (fe_id e)) (fe_kind e) (fe_iface e)
        (map (fun c => mkCallRec (c_name c) (c_args c) (c_kw c) (link_t owner (c_target c))) (fe_calls e)).

  Definition target_entries : list fentry := map (link_e (mi_name (ic_target k))) (mi_entries (ic_target k)).
  Definition all_entries : env :=
    target_entries ++ flat_map (fun m => map (link_e (mi_name m)) (mi_entries m)) (ic_imports k) ++ [poison].

  Definition no_excl (_ : string) : bool := false.

  Definition reaches_poison : bool :=
    existsb (fun f => match build_tree no_excl all_entries f with
                      | Some nodes => existsb (fun t => String.eqb (fe_id (t_entry t)) "!!raise") nodes
                      | None => false
                      end) target_entries.

  Definition strip_q (s : string) : string := remove_prefix (qid (mi_name (ic_target k)) "") s.
  Definition strip_r (r : fresult) : fresult := mkR (strip_q (r_id r)) (r_gets r) (r_sets r) (r_dels r) (r_calls r).

  Definition results_match : bool :=
    if reaches_poison then ic_raised k
    else match generate no_excl all_entries target_entries (ic_store0 k) [] with
         | GOk rs s => negb (ic_raised k) && list_eqb fresult_eqb (map strip_r rs) (ic_results k)
                       && store_eqb all_entries s (ic_store1 k)
         | GRaise => ic_raised k
         | GFuel => false
         end.

  (* ---------- which modules were analysed (model of the BFS) ---------- *)
  Definition imports_of_ctx (c : list (string * msym)) : list (string * string) :=
    flat_map (fun kv => match snd kv with MImport n q => [(n, q)] | _ => [] end) c.
  Definition imports_in (o : string) : list (string * string) :=
    match find (fun m => String.eqb (mi_origin m) o) (ic_imports k) with Some m => imports_of_ctx (mi_ctx m) | None => [] end.
  Definition bfs_fuel : nat :=
    2 + List.length (imports_of_ctx (mi_ctx (ic_target k))) + fold_left (fun n m => n + List.length (mi_ctx m)) (ic_imports k) 0.

  Definition predicted_modules : option (list (string * string)) :=
    analysed module_of origin_of_mod bl pip std fl fp fs imports_in (fun o => ends_with ".py" o && negb (mem o (ic_no_source k))) bfs_fuel (imports_of_ctx (mi_ctx (ic_target k))).

  Definition modules_match : bool :=
    match predicted_modules with
    | Some l => list_eqb pair_eqb l (map (fun m => (mi_name m, mi_origin m)) (ic_imports k))
    | None => false
    end.

  (* ---------- C12 specification: closure of the source-level import graph ---------- *)
  Definition class_of (o : string) : nat := match tlookup (ic_class k) o with Some n => n | None => 0 end.
  Definition allowed (o : string) : bool :=
    negb (mem o (ic_excluded_origins k))
    && match class_of o with 1 => Nat.leb 1 (ic_level k) | 2 => Nat.leb 2 (ic_level k) | 3 => Nat.leb 3 (ic_level k) | _ => false end.
  Definition succs (o : string) : list string := match tlookup (ic_graph k) o with Some l => l | None => [] end.

  Fixpoint closure (fuel : nat) (frontier seen : list string) : list string :=
    match fuel with
    | 0 => seen
    | S f =>
      match frontier with
      | [] => seen
      | o :: r =>
        if mem o seen || negb (allowed o) then closure f r seen
        else closure f (r ++ succs o) (o :: seen)
      end
    end.
  Definition expected_origins : list string :=
    if Nat.eqb (ic_level k) 0 then []
    else closure (2 + List.length (ic_graph k) + fold_left (fun n kv => n + List.length (snd kv)) (ic_graph k) 0)
                 (succs (ic_target_origin k)) [].

  Definition observed_origins : list string := map mi_origin (ic_imports k).
  Definition sset_sub (a b : list string) : bool := forallb (fun x => mem x b) a.

  (* bit 0: the model does not reproduce results / mutated IR / raising;
     bit 1: the model does not reproduce the call resolutions;
     bit 2: the model does not reproduce the analysed modules (names, origins, order);
     bit 3: SPEC C12 - some analysed module is not allowed by level / exclusions, or not reachable;
     bit 4: SPEC C12 - some allowed reachable module was not analysed;
     bit 5: SPEC C12 - a module was analysed twice (two keys with one origin) *)
  Definition imp_code : nat :=
    (if results_match then 0 else 1)
    + (if forallb res_matches (ic_resolutions k) then 0 else 2)
    + (if modules_match then 0 else 4)
    + (if sset_sub observed_origins expected_origins then 0 else 8)
    + (if sset_sub expected_origins observed_origins then 0 else 16)
    + (if nodupb observed_origins then 0 else 32).
End Case.
