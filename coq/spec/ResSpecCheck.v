(* C03 / C14 judged on the results and the IR rattr itself produced. *)
From RattrV Require Import Base Str Context CallSwaps PyBind FuncAn FaCheck Results ResCheck Closure.
Open Scope string_scope.
Open Scope list_scope.

Definition names_subset (a : list string) (b : list rname) : bool := forallb (fun x => mem x (map fst b)) a.
Definition rnames_in (a : list rname) (b : list string) : bool := forallb (fun x => mem (fst x) b) a.

Definition find_result (rs : list fresult) (id : string) : option fresult :=
  find (fun r => String.eqb (r_id r) id) rs.

Definition excl (k : res_case) : string -> bool := fun n => mem n (rc_excluded k).

(* every name derivable without repeating a call record is reported *)
Definition lower_ok (k : res_case) : bool :=
  forallb (fun f => match find_result (rc_results k) (fe_id f) with
                    | None => false
                    | Some r =>
                      let '(g, s, d) := lower (excl k) (rc_env k) (rc_store0 k) f in
                      rnames_in g (r_gets r) && rnames_in s (r_sets r) && rnames_in d (r_dels r)
                    end) (rc_env k).

(* nothing is reported that is not derivable by finitely many substitutions (path length <= calls+2) *)
Definition upper_ok (k : res_case) : bool :=
  let U := upper (excl k) (rc_env k) (rc_store0 k) (total_calls (rc_env k) + 2) in
  forallb (fun f => match find_result (rc_results k) (fe_id f) with
                    | None => false
                    | Some r =>
                      let '(g, s, d) := get_ir U (fe_id f) in
                      names_subset (r_gets r) g && names_subset (r_sets r) s && names_subset (r_dels r) d
                    end) (rc_env k).

(* reported calls are exactly the function's own direct calls *)
Definition calls_ok (k : res_case) : bool :=
  forallb (fun f => match find_result (rc_results k) (fe_id f) with
                    | None => false
                    | Some r => sset_eqb (r_calls r) (map (fun c => (c_name c ++ "()")%string) (fe_calls f))
                    end) (rc_env k).

Definition has_resolvable_call (k : res_case) : bool :=
  negb (is_nil (all_resolvable_calls (excl k) (rc_env k))).

(* bit 0 model != rattr; 1 lower bound missed; 2 upper bound exceeded; 3 calls wrong;
   4 KF_C03_1; 5 KF_C03_2; 6 the IR changed (C14); 7 some call is resolvable (C14 finding class); 9 generation raised *)
Definition res_spec_code (k : res_case) : nat :=
  res_corr_code k
  + (if rc_raised k then 512 else
       (if lower_ok k then 0 else 2) + (if upper_ok k then 0 else 4) + (if calls_ok k then 0 else 8)
       + (if store_eqb (rc_env k) (rc_store0 k) (rc_store1 k) then 0 else 64))
  + (if KF_C03_1 (excl k) (rc_env k) then 16 else 0)
  + (if KF_C03_2 (excl k) (rc_env k) then 32 else 0)
  + (if has_resolvable_call k then 128 else 0).
