(* Correspondence judgement for the FunctionAnalyser model (harness/fa_lib.py cases). *)
From RattrV Require Import Base Str PyAst Naming Context FuncAn.
Open Scope string_scope.
Open Scope list_scope.

Inductive obs_outcome := OOk | OFatal | ORaise (cls : string).

Record fa_obs := mkFaObs {
  ob_gets : list rname; ob_sets : list rname; ob_dels : list rname;
  ob_calls : list callrec;
  ob_warn : list (string * pos);
  ob_outcome : obs_outcome }.

Record fa_case := mkFaCase {
  fc_fn : node;                          (* the FunctionDef / Lambda handed to FunctionAnalyser *)
  fc_ctx : ctx;                          (* context chain at entry, innermost first *)
  fc_modulename : option string;
  fc_mexists : list (string * bool);     (* module_exists for the qualified names of visible imports *)
  fc_obs : fa_obs }.                     (* what rattr produced *)

Definition lookup_bool (t : list (string * bool)) (k : string) : bool :=
  match find (fun kv => String.eqb (fst kv) k) t with Some (_, b) => b | None => false end.

Definition run_model (k : fa_case) : outcome unit * vstate :=
  analyse (lookup_bool (fc_mexists k)) (fc_modulename k) (fc_fn k) (init_state (fc_ctx k)).

Definition rsubset (a b : list rname) : bool := forallb (fun x => rmem x b) a.
Definition rset_eqb (a b : list rname) : bool := rsubset a b && rsubset b a.
Definition csubset (a b : list callrec) : bool := forallb (fun x => cmem x b) a.
Definition cset_eqb (a b : list callrec) : bool := csubset a b && csubset b a.

Definition warn_eqb (a b : string * pos) : bool :=
  String.eqb (fst a) (fst b) && Nat.eqb (fst (snd a)) (fst (snd b)) && Nat.eqb (snd (snd a)) (snd (snd b)).

Definition outcome_matches (m : outcome unit) (o : obs_outcome) : bool :=
  match m, o with
  | Ok _, OOk => true
  | Fatal, OFatal => true
  | Raise c1, ORaise c2 => String.eqb c1 c2
  | _, _ => false
  end.

(* 0 = the model reproduces rattr; 1 = it does not; 64 = outside the model (sorted / defaultdict analysers) *)
Definition fa_corr_code (k : fa_case) : nat :=
  let '(out, s) := run_model k in
  let o := fc_obs k in
  match out with
  | Unmodelled => 64
  | _ =>
    if outcome_matches out (ob_outcome o)
       && rset_eqb (v_gets s) (ob_gets o) && rset_eqb (v_sets s) (ob_sets o) && rset_eqb (v_dels s) (ob_dels o)
       && cset_eqb (v_calls s) (ob_calls o) && list_eqb warn_eqb (v_warn s) (ob_warn o)
    then 0 else 1
  end.
