(* C01 / C02 judged on the IR rattr itself produced (harness/props/c01.py, c02.py). *)
From RattrV Require Import Base Str PyAst Naming Spell Context FuncAn FaCheck Occurs CallSpec Binding.
Open Scope string_scope.
Open Scope list_scope.

Definition reported (o : fa_obs) (x : occ) : bool :=
  match x with
  | (AGet, s) => existsb (fun r => String.eqb (fst r) s) (ob_gets o)
  | (ASet, s) => existsb (fun r => String.eqb (fst r) s) (ob_sets o)
  | (ADel, s) => existsb (fun r => String.eqb (fst r) s) (ob_dels o)
  | (ACall, s) => existsb (fun c => String.eqb (c_name c) s) (ob_calls o)
  end.

Definition missed (full : bool) (k : fa_case) : list occ :=
  filter (fun x => negb (reported (fc_obs k) x)) (occs_body full (fc_fn k)).

Definition is_ok_outcome (o : obs_outcome) : bool := match o with OOk => true | _ => false end.

(* bit 0: model != rattr; bit 1: an occurrence outside every finding class is not reported (C01 violated);
   bit 2: an occurrence inside a finding class is not reported (known findings reproduce);
   bit 3: a reported name is not allowed (C02 violated); 64: outside the model; 32: analysis did not end Ok *)
Definition phantoms (k : fa_case) : list occ :=
  let allowed := allowed_body (fc_fn k) in
  let o := fc_obs k in
  filter (fun x => negb (occ_mem x allowed))
         (map (fun r => (AGet, fst r)) (ob_gets o) ++ map (fun r => (ASet, fst r)) (ob_sets o)
          ++ map (fun r => (ADel, fst r)) (ob_dels o) ++ map (fun c => (ACall, c_name c)) (ob_calls o)).

(* ---------- C09 ---------- *)
Definition c09_unmirrored (k : fa_case) : list call_site := unmirrored (fc_fn k) (ob_calls (fc_obs k)).

(* ---------- C17 ---------- *)
Definition globals_of (c : ctx) : list string := flat_map (map s_name) c.
Definition pos_eqb (a b : pos) : bool := Nat.eqb (fst a) (fst b) && Nat.eqb (snd a) (snd b).

Definition sites_for (k : fa_case) : list site := sites_of (globals_of (fc_ctx k)) (fc_fn k).

Definition matching (ss : list site) (w : string * pos) : list site :=
  filter (fun s => String.eqb (st_name s) (fst w) && pos_eqb (st_pos s) (snd w)) ss.

(* warnings issued although the name is bound at that point *)
Definition spurious (k : fa_case) : list (string * pos) :=
  let ss := sites_for k in
  filter (fun w => let ms := matching ss w in negb (is_nil ms) && forallb st_bound ms) (ob_warn (fc_obs k)).

(* names covered by the listed C17 finding classes: match-capture names (and the other binders of node classes
   without a visitor, except handlers excepted: fix 5c7d323), nested class names.  The former classes "base of an
   attribute / item del target" and "variable of a plain del" were repaired by 0e6fa15 / 686ac63. *)
Definition kf17_of (n : node) : list string :=
  match n with
  | Other k bs _ => if String.eqb k "ExceptHandler" then [] else bs
  | SClassDef name _ _ => [name]
  (* finding KF_C17_5: the target of a namedtuple declaration inside a function is registered as a class only when the
     declaration is well formed and one-to-one; otherwise nothing is registered and later uses of the target warn *)
  | SAssign ts v _ => if looks_namedtuple v then flat_map (fun t => match t with EName id _ _ => [id] | _ => [] end) ts else []
  | SAnnAssign (EName id _ _) _ [v] _ | SAugAssign (EName id _ _) v _ => if looks_namedtuple v then [id] else []
  | _ => []
  end.
Definition kf17_names (fn : node) : list string := flat_map (fold_nodes kf17_of) (body_of fn).

(* reads that must be warned about: a demanded Load of a name bound nowhere in the file (and not a
   builtin), or of a local variable after `del` of that variable *)
(* (KF_C17_6, repaired: an assignment to an attribute or an item of a name no longer registers the name, so such
   functions are judged like all others) *)
Definition must_warn (k : fa_case) : list site :=
  let everywhere := bound_anywhere (globals_of (fc_ctx k)) (fc_fn k) in
  let locals := fn_params (fc_fn k) ++ flat_map (fold_nodes binders_of) (body_of (fc_fn k)) in
  filter (fun s => st_demanded s && negb (st_bound s)
                   && (negb (mem (st_name s) everywhere)
                       || (st_deleted s && mem (st_name s) locals && negb (mem (st_name s) (globals_of (fc_ctx k))))))
         (sites_for k).
Definition unwarned (k : fa_case) : list site :=
  filter (fun s => negb (existsb (fun w => String.eqb (fst w) (st_name s) && pos_eqb (snd w) (st_pos s)) (ob_warn (fc_obs k))))
         (must_warn k).

Definition fa_spec_code (k : fa_case) : nat :=
  let corr := fa_corr_code k in
  if Nat.eqb corr 64 then 64
  else if negb (is_ok_outcome (ob_outcome (fc_obs k))) then corr + 32
  else corr
       + (if is_nil (missed false k) then 0 else 2)
       + (if is_nil (missed true k) then 0 else 4)
       + (if is_nil (phantoms k) then 0 else 8)
       + (if is_nil (c09_unmirrored k) then 0 else 16)
       + (let sp := spurious k in
          let kf := kf17_names (fc_fn k) in
          (if forallb (fun w => mem (fst w) kf) sp then 0 else 128)
          + (if existsb (fun w => mem (fst w) kf) sp then 256 else 0))
       + (if is_nil (unwarned k) then 0 else 512)
       (* known findings are only those the model predicts: what rattr missed / spuriously warned beyond the model *)
       + (let '(_, ms) := run_model k in
          let model_case := mkFaCase (fc_fn k) (fc_ctx k) (fc_modulename k) (fc_mexists k)
                                     (mkFaObs (v_gets ms) (v_sets ms) (v_dels ms) (v_calls ms) (v_warn ms) OOk) in
          (if forallb (fun x => occ_mem x (missed true model_case)) (missed true k) then 0 else 1024)
          + (if forallb (fun w => existsb (warn_eqb w) (v_warn ms)) (spurious k) then 0 else 2048)
          (* C02 finding class: the body contains an expression whose spine passes through an attribute-access
             builtin other than a well-formed literal chain (KF_C10_1): its spelling is not the README's *)
          + (if existsb (fun n => KF_C10_1 n) (flat_map (fold_nodes (fun n => [n])) (body_of (fc_fn k))) then 4096 else 0)
          + (if forallb (fun x => occ_mem x (phantoms model_case)) (phantoms k) then 0 else 8192)).
