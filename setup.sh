#!/bin/sh
# Build the Coq development from files on disk (offline). Full .vo build, no -vos.
set -e
cd "$(dirname "$0")"
mkdir -p .work evidence replays coq/gen
export PYTHONHASHSEED=0 PYTHONPATH="${RATTR_REPO:-/repo}"
/venv/bin/python harness/gen_all.py
cd coq
coq_makefile -f _CoqProject -o Makefile >/dev/null
timeout 3000 make -k -j16 2>&1 | tail -20
